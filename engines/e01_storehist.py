"""E1 `storehist` — C01 (content-addressed stores), C02 (stage -> store ->
checkout round trip), C06 (gc) over seeded operation histories on 2-4 object
stores of mixed class.  DESIGN §5 C01, C02, C06.
"""

import hashlib
import json
import os
import random

from simkit import gen, model
from simkit.harness import HarnessError, World
from simkit.seam import REAL

TIERS = {
    "C01": {"quick": 2400, "thorough": 20000},
    "C02": {"quick": 2000, "thorough": 16000},
    "C06": {"quick": 2400, "thorough": 20000},
}
LEVEL = {"C01": "exploration", "C02": "exploration", "C06": "exploration"}
RULE = {
    "C01": "history of 3-12 operations (stage dir / stage file / upload-stage / store-to-store "
    "transfer closed or expanded, hardlink, verify / index save of nested dirs / migrate "
    "legacy md5-dos2unix store / gc / user edits) over stores A (local+state), B (local or "
    "generic), R (SimRemoteFS), L (legacy local); listing order, pool completion order, "
    "PYTHONHASHSEED, reflink variant seeded; 60% of histories inject upload faults. After "
    "every operation every store is audited from raw listings: object name == digest of its "
    "bytes under the store's algorithm (.dir: canonical listing), local-class objects added "
    "by a successful operation are 0444. Non-trivial: >=2 operations added objects to one "
    "store and >=1 .dir object audited; distinct = scenario digest.",
    "C02": "same histories without faults plus checkouts: every staged tree/file is checked out "
    "into a fresh location through hashfile.checkout (link types copy/hardlink/symlink, "
    "reflink under the cow variant; with/without state) and through index "
    "build->md5->save->compare->apply; oracle = walk of the fresh location == model tree, "
    "Tree.load == model listing, nfiles/size == model. Non-trivial: a checked-out tree with "
    ">=1 nested directory and >=1 duplicate content; distinct = scenario digest.",
    "C06": "histories that build real store states (files, .dir objects, shared files, leftovers "
    "of failed adds) then call gc with used sets drawn from ids in the store, absent ids, "
    "ids of another algorithm, .dir ids; shallow/expanding, dry/real, read-only stores; "
    "oracle = returned count and before/after listings vs independently computed S-U. "
    "Non-trivial: store holds >=1 .dir object and both S-U and S&U non-empty; distinct = "
    "(scenario digest).",
}

STORES = {
    "A": {"kind": "local", "state": True, "hash": "md5"},
    "B": {"kind": "local", "state": False, "hash": "md5"},
    "G": {"kind": "generic", "state": False, "hash": "md5"},
    "R": {"kind": "remote", "state": False, "hash": "md5"},
    "L": {"kind": "local", "state": True, "hash": "md5-dos2unix"},  # one State per repo, shared
}


# ------------------------------------------------------------------ generate
def generate(prop, rng):
    pool = gen.content_pool(rng, n=rng.randint(4, 8))
    if rng.random() < 0.5:
        pool.append(rng.choice([b"crlf\r\nfile\r\n", b"a\r\nb", b"\r\n"]))
    ntrees = rng.randint(1, 3)
    trees = [
        gen.gen_tree(rng, range(len(pool)), max_files=rng.randint(1, 6), max_depth=rng.choice([0, 1, 2, 3]))
        for _ in range(ntrees)
    ]
    if ntrees > 1 and rng.random() < 0.5:
        for rel in rng.sample(sorted(trees[0]), min(2, len(trees[0]))):
            trees[1]["sh_" + rel.replace("/", "_")] = trees[0][rel]
    for t in trees:
        if rng.random() < 0.6:
            # a duplicate content under a nested path
            d = rng.choice(["dup", "dup/deep", "ü"])
            if not any(k == d or k.startswith(d + "/") for k in t) and "dup" not in t:
                t[d + "/" + rng.choice(gen.NAMES)] = t[rng.choice(sorted(t))]
    for t in trees:
        if rng.random() < 0.2:
            # two paths that differ only in separator vs underscore (flattened they are the same string)
            pair = {"a_b/c": rng.randrange(len(pool)), "a/b_c": rng.randrange(len(pool))}
            if not any(k == r or k.startswith(r + "/") or r.startswith(k + "/") or k in ("a", "a_b") for k in t for r in pair):
                t.update(pair)
    faulty = prop == "C01" and rng.random() < 0.6
    cfg = {
        "reflink": gen.weighted(rng, [(5, "enotsup"), (3, "nocow"), (2, "cow")]),
        "jobs": rng.choice([1, 2, 4, None]),
        "tick_ns": rng.choice([1000, 1_000_000, 1_000_000_000]),
        "big_threshold": rng.choice([None, None, 0, 3]),
        "faulty": faulty,
        "non_atomic_remote": faulty and rng.random() < 0.4,
    }
    md5_stores = ["A", "B", "G", "R"]
    ops = []
    staged = {}  # store -> set of tree idx known complete (generator's guess; executor re-checks)
    nops = rng.randint(3, 12)
    weights = {
        "C01": [(5, "stage"), (2, "stage_file"), (3, "xfer"), (3, "index_save"), (2, "migrate"), (1, "gc"), (1, "edit"),
                (2, "stage_defer"), (2, "xfer_deferred"), (1, "edit_disk")],
        "C02": [(5, "stage"), (2, "stage_file"), (2, "xfer"), (3, "index_save"), (1, "migrate"), (5, "checkout"), (1, "edit"),
                (2, "evict"),  # another client's gc removes an object; staging again through the long-lived handle restores it
                (2, "stage_defer"), (2, "xfer_deferred"), (1, "edit_disk")],
        "C06": [(5, "stage"), (1, "stage_file"), (2, "xfer"), (2, "index_save"), (1, "migrate"), (6, "gc"), (2, "evict"), (2, "ext_add"), (2, "future_mtime")],
    }[prop]
    for n in range(nops):
        kind = gen.weighted(rng, weights)
        if n == 0:
            kind = "stage"
        ti = rng.randrange(ntrees)
        op = {"op": kind}
        if kind == "stage":
            s = rng.choice(md5_stores + ["L"])
            op.update(tree=ti, store=s, upload=(s != "L" and rng.random() < 0.25), hardlink=rng.random() < 0.15,
                      trailing_sep=rng.random() < 0.2)
            staged.setdefault(s, set()).add(ti)
        elif kind == "stage_file":
            op.update(content=rng.randrange(len(pool)), store=rng.choice(md5_stores + ["L"]))
        elif kind == "xfer":
            srcs = [s for s in md5_stores if staged.get(s)]
            if not srcs:
                continue
            s1 = rng.choice(srcs)
            s2 = rng.choice([s for s in md5_stores if s != s1])
            tis = sorted(rng.sample(sorted(staged[s1]), rng.randint(1, len(staged[s1]))))
            op.update(src=s1, dest=s2, trees=tis, shallow=rng.random() < 0.5,
                      hardlink=rng.random() < 0.2, verify=rng.random() < 0.3)
            staged.setdefault(s2, set()).update(tis)
        elif kind == "index_save":
            s = rng.choice(["A", "B"])
            op.update(tree=ti, store=s, apply=rng.random() < 0.6, with_state=rng.random() < 0.5)
        elif kind == "migrate":
            if not staged.get("L"):
                op = {"op": "stage", "tree": ti, "store": "L", "upload": False, "hardlink": False}
                staged.setdefault("L", set()).add(ti)
            else:
                op.update(dest=rng.choice(["A", "B"]))
        elif kind == "gc":
            s = rng.choice(sorted(staged) or ["A"])
            op.update(
                store=s,
                used_trees=[t for t in range(ntrees) if rng.random() < 0.5],
                used_files=[c for c in range(len(pool)) if rng.random() < 0.2],
                used_absent=rng.random() < 0.3,
                used_other_algo=rng.random() < 0.3,
                used_present_pick=rng.random(),
                shallow=rng.random() < 0.5,
                dry=rng.random() < 0.25,
                read_only=rng.random() < 0.1,
                cache_odb=rng.choice([None, "A", "B"]),
                used_as_iter=rng.random() < 0.4,
                used_strip_dir=rng.random() < 0.25,
                dry_first=rng.random() < 0.2,
            )
            if prop == "C06" and rng.random() < 0.2:
                # the n-th removal fails (object owned by somebody else in a shared cache / I/O error)
                op["rm_fault"] = {"nth": rng.randint(1, 4), "exc": rng.choice(["EACCES", "EACCES", "EIO"])}
        elif kind == "checkout":
            cands = [s for s in md5_stores if s != "R" and staged.get(s)]
            if not cands:
                continue
            s = rng.choice(cands)
            op.update(store=s, tree=rng.choice(sorted(staged[s])),
                      link=rng.choice(["copy", "hardlink", "symlink", "reflink"]),
                      with_state=rng.random() < 0.5, via=rng.choice(["obj", "obj", "index"]),
                      reuse_dest=rng.random() < 0.3, twice=rng.random() < 0.3)
        elif kind == "edit":
            op.update(tree=ti, content=rng.randrange(len(pool)), name=rng.choice(gen.NAMES))
        elif kind == "future_mtime":
            # an object carries a modification time in the future (store written while the clock was ahead;
            # mtime travelling with a hard-linked inode)
            op.update(store=rng.choice(sorted(staged) or ["A"]), pick=rng.random())
        elif kind == "stage_defer":
            # build now, transfer later (other stagings and other people's edits may come in between)
            s_ = rng.choice(md5_stores)
            op.update(tree=ti, store=s_)
        elif kind == "xfer_deferred":
            op.update(pick=rng.random())
        elif kind == "edit_disk":
            # somebody rewrites a file of a workspace directory on disk right now
            op.update(tree=ti, pick=rng.random(), tag=rng.randrange(10**6))
        elif kind == "ext_add":
            # another client (its own handle) adds objects nobody here refers to, possibly under fan-out
            # directories this process' long-lived handle has never listed
            op.update(store=rng.choice(sorted(staged) or ["A"]), n=rng.randint(1, 4), tag=rng.randrange(10**6))
        elif kind == "evict":
            op.update(store=rng.choice(sorted(staged) or ["A"]), pick=rng.random(), prefer_dir=rng.random() < 0.6)
        if faulty and kind == "migrate" and op.get("op") == "migrate" and rng.random() < 0.5:
            # an object of the legacy store cannot be read back while it is being re-hashed
            op["fault"] = {"nth": rng.randint(1, 5), "stage": "read", "exc": rng.choice(["EIO", "EACCES"])}
        if faulty and kind in ("stage", "xfer", "index_save", "stage_file") and rng.random() < 0.5:
            op["fault"] = {
                "nth": rng.randint(1, 6),
                "stage": rng.choice(["create", "mid", "rename", "put_lost", "ack_lost", "protect", "protect", "get_mid", "get_mid"]),
                "exc": rng.choice(["EIO", "ENOSPC", "ConnectionError"]),
            }
            if cfg["non_atomic_remote"] and (op.get("dest") == "R" or op.get("store") == "R") and rng.random() < 0.6:
                op["fault"].update(stage="partial", exc=rng.choice(["EIO", "ConnectionError"]))
            if kind == "xfer" and op.get("src") == "R" and op.get("dest") != "R" and rng.random() < 0.6:
                op["fault"]["stage"] = "get_mid"  # a download that breaks off half way
            if op["fault"]["stage"] == "protect":
                # chmod of a placed object fails (Samba / foreign owner): tolerated by the library, the
                # object stays writable; 1-3 objects are hit
                op["fault"].update(exc=rng.choice(["EACCES", "EIO"]), count=rng.randint(1, 3))
            # the same operation is run again without faults: what it adds must end up read-only
            op["retry"] = rng.random() < 0.6
        if prop == "C01" and kind == "stage" and op.get("upload") and rng.random() < 0.5:
            # a second writer rewrites a workspace file while the upload staging is between two reads
            op["mid_edit"] = {"after_reads": rng.randrange(12), "pick": rng.random(), "content": rng.randrange(len(pool))}
        ops.append(op)
    if prop in ("C01", "C02") and ntrees > 1 and rng.random() < 0.2:
        # motif: a staging kept for later, another directory (sharing contents) staged through the same
        # store handle, that other directory rewritten on disk, then the kept staging transferred
        s_ = rng.choice(["A", "B", "G"])
        ops.append({"op": "stage_defer", "tree": 0, "store": s_})
        ops.append({"op": "stage_defer", "tree": 1, "store": s_})
        for _ in range(3):
            ops.append({"op": "edit_disk", "tree": 1, "pick": rng.random(), "tag": rng.randrange(10**6), "abandon": True})
        ops.append({"op": "xfer_deferred", "pick": 0.0})
        if prop == "C02":
            ops.append({"op": "checkout", "store": s_, "tree": 0, "link": "copy", "with_state": False, "via": "obj",
                        "reuse_dest": False, "twice": False})
    return {"prop": prop, "cfg": cfg, "contents": [gen.enc(b) for b in pool], "trees": trees, "ops": ops}


def valid(sc):
    n = len(sc["contents"])
    nt = len(sc["trees"])
    if any(not t or any(ci >= n for ci in t.values()) for t in sc["trees"]):
        return False
    for op in sc["ops"]:
        for k in ("tree",):
            if k in op and op[k] >= nt:
                return False
        if any(t >= nt for t in op.get("trees", [])) or any(t >= nt for t in op.get("used_trees", [])):
            return False
        if op.get("content", 0) >= n or any(c >= n for c in op.get("used_files", [])):
            return False
    return True


def shrink_paths(sc):
    out = [("list", ("ops",))]
    for i in range(len(sc["trees"])):
        out.append(("dict", ("trees", i)))
    for i, op in enumerate(sc["ops"]):
        for k in ("used_trees", "used_files", "trees"):
            if k in op:
                out.append(("list", ("ops", i, k)))
    return out


def simplify(sc):
    import copy

    simple = {"jobs": 1, "reflink": "enotsup", "tick_ns": 1_000_000, "big_threshold": None}
    for k, v in simple.items():
        if sc["cfg"].get(k) != v:
            c = copy.deepcopy(sc)
            c["cfg"][k] = v
            yield c
    for i, op in enumerate(sc["ops"]):
        for k, v in (("fault", None), ("hardlink", False), ("upload", False), ("verify", False),
                     ("used_absent", False), ("used_other_algo", False), ("dry", False),
                     ("read_only", False), ("cache_odb", None), ("with_state", False), ("apply", False)):
            if op.get(k):
                c = copy.deepcopy(sc)
                if v is None:
                    del c["ops"][i][k]
                else:
                    c["ops"][i][k] = v
                yield c
    for i, cont in enumerate(sc["contents"]):
        want = gen.enc(b"c%d" % i)
        if cont != want and b"\r\n" not in gen.dec(cont):
            c = copy.deepcopy(sc)
            c["contents"][i] = want
            yield c


# ------------------------------------------------------------------- execute
class Hist:
    def __init__(self, sc, ctx):
        self.sc, self.ctx = sc, ctx
        self.cfg = sc["cfg"]
        self.w = World(ctx)
        self.contents = [gen.dec(c) for c in sc["contents"]]
        self.trees = [dict(t) for t in sc["trees"]]  # mutable: edits
        self.state = None
        self.odbs = {}
        self.ws_written = {}
        self.complete = {}  # store -> {dir oid: tree snapshot {rel: bytes}}
        self.n_adding_ops = {}
        self.co_n = 0
        self.bad_seen = set()
        self.ext_added = set()
        self.deferred = []

    def st(self):
        if self.state is None:
            self.state = self.w.state("tmp", root_dir=self.w.root)
        return self.state

    def odb(self, name):
        if name not in self.odbs:
            d = STORES[name]
            conf = {"hash_name": d["hash"], "tmp_dir": self.w.p("tmp")}
            if d["state"]:
                conf["state"] = self.st()
            self.odbs[name] = self.w.odb(self.dirname(name), d["kind"], **conf)
            if d["kind"] == "remote" and self.cfg.get("non_atomic_remote"):
                # a remote without temp + rename: a put that fails part-way leaves a truncated object
                self.w.remote_fs(self.dirname(name)).non_atomic = True
        return self.odbs[name]

    @staticmethod
    def dirname(name):
        # the legacy store lives under a path that happens to contain ".dir"
        return "stL.dir-cache" if name == "L" else "st" + name

    def listing(self, name):
        return self.w.listing(self.dirname(name), STORES[name]["kind"])

    def tree_bytes(self, ti):
        return {rel: self.contents[ci] for rel, ci in self.trees[ti].items()}

    def model_dir(self, ti, algo="md5"):
        ents = {rel: model.ref_digest(algo, self.contents[ci]) for rel, ci in self.trees[ti].items()}
        return model.ref_dir(ents) + (ents,)

    def write_ws(self, ti):
        path = self.w.p(f"ws{ti}")
        want = self.tree_bytes(ti)
        if self.ws_written.get(ti) != want:
            if os.path.exists(path):
                REAL["shutil.rmtree"](path)
            # a deterministic third of the files is executable (metadata must never reach an object's name)
            execs = {rel for rel in want if (sum(rel.encode()) + ti) % 3 == 0}
            self.w.write_tree(path, want, execs=execs)
            self.ws_written[ti] = dict(want)
            self.ctx.clock.advance(self.ctx.seam.order_rng.choice([0, 10**6, 10**9, 86400 * 10**9]))
        return path


def _apply_fault(ctx, op):
    f = op.get("fault")
    if not f:
        return
    at = {
        "create": ("copy_create", "link", "os_open_w"),
        "mid": ("copy_mid",),
        "rename": ("rename",),
        "put_lost": ("r_put",),
        "ack_lost": ("r_put_ack",),
        "protect": ("chmod",),
        "get_mid": ("r_get_mid",),
        "read": ("open_r",),
        "partial": ("r_put_mid",),
    }[f["stage"]]
    ctx.seam.faults = [{"at": at, "match": None, "nth": f["nth"], "exc": f["exc"], "name": f["stage"], "count": f.get("count", 1)}]


def execute(sc, ctx):
    if not valid(sc):
        raise HarnessError("scenario violates the engine's preconditions")
    from dvc_data.hashfile import build as hbuild

    cfg = sc["cfg"]
    if cfg.get("big_threshold") is not None:
        # route files down the parallel hashing path (SimExecutor completion orders)
        thr = cfg["big_threshold"]
        d = list(hbuild._build_files.__defaults__)
        d[-1] = thr
        hbuild._build_files.__defaults__ = tuple(d)
        d = list(hbuild._get_hashes.__defaults__)
        d[-1] = thr
        hbuild._get_hashes.__defaults__ = tuple(d)
    h = Hist(sc, ctx)
    prop = sc["prop"]
    dir_audited = False
    nt_c02 = False
    nt_c06 = False
    for n, op in enumerate(sc["ops"]):
        ctx.seam.faults = []
        _apply_fault(ctx, op)
        fired0 = sum(ctx.seam.fired.values())
        before = {s: set(h.listing(s)[0]) for s in h.odbs} if prop == "C01" else {}
        ok = True
        try:
            r = OPS[op["op"]](h, op, n)
            if r:
                nt_c02 = nt_c02 or r.get("nt_c02", False)
                nt_c06 = nt_c06 or r.get("nt_c06", False)
        except _Expected:
            ok = False
        except Exception as exc:  # noqa: BLE001
            ok = False
            faulted = sum(ctx.seam.fired.values()) > fired0
            if not faulted:
                import traceback

                ctx.violate(
                    "op-raised", f"{op['op']}:{type(exc).__name__}",
                    f"op{n} {op} raised {exc!r}\n{traceback.format_exc()[-900:]}",
                )
        ctx.seam.faults = []
        faulted = sum(ctx.seam.fired.values()) > fired0
        if prop == "C01":
            for s in sorted(h.odbs):
                objs, tmps, *rest = _listing_modes(h, s)
                modes = rest[0] if rest else {}
                algo = STORES[s]["hash"]
                for oid, data in sorted(objs.items()):
                    why = model.check_object(oid, data, algo)
                    if oid.endswith(".dir") and why is None:
                        dir_audited = True
                    if why is not None:
                        key = (s, oid, hashlib.md5(data).hexdigest())  # noqa: S324
                        if key in h.bad_seen:
                            continue  # already reported when it first appeared
                        h.bad_seen.add(key)
                        tr = _transient_ok(h, s, oid, data, faulted)
                        if tr:
                            ctx.probe("tolerated_" + tr)
                            continue
                        ctx.violate(
                            "misnamed-object",
                            f"{op['op']}:{'dir' if oid.endswith('.dir') else 'file'}:{why}",
                            f"store {s} ({algo}) holds {oid} whose bytes do not match (len {len(data)}) after op{n} {op}",
                        )
                    elif (
                        STORES[s]["kind"] == "local" and ok and not faulted
                        and oid not in before.get(s, set()) and modes.get(oid) != 0o444
                    ):
                        ctx.violate(
                            "added-not-readonly", op["op"],
                            f"store {s}: {model.short(oid)} mode {oct(modes.get(oid, 0))} after op{n} {op}",
                        )
                new = set(objs) - before.get(s, set())
                if new:
                    h.n_adding_ops[s] = h.n_adding_ops.get(s, 0) + 1
            if faulted and op.get("retry") and not op.get("mid_edit"):
                # the SAME operation once more, fault-free: whatever the pair of runs added to a local
                # store must be named correctly (audited with the next step) and end up read-only
                ok2 = True
                try:
                    OPS[op["op"]](h, op, n)
                except Exception:  # noqa: BLE001
                    ok2 = False  # judged by the fault-free twin scenarios; not this oracle's business
                if ok2:
                    ctx.probe("retried_after_fault")
                    for s in sorted(h.odbs):
                        if STORES[s]["kind"] != "local":
                            continue
                        objs, _, modes = _listing_modes(h, s)
                        for oid in sorted(set(objs) - before.get(s, set())):
                            if modes.get(oid) != 0o444 and model.check_object(oid, objs[oid], STORES[s]["hash"]) is None:
                                ctx.violate(
                                    "added-not-readonly", f"{op['op']}:after-fault-free-rerun:{op['fault']['stage']}",
                                    f"store {s}: {model.short(oid)} mode {oct(modes.get(oid, 0))} after op{n} {op} was repeated without faults",
                                )
    if h.state is not None:
        h.state.close()
    if prop == "C01":
        ctx.nontrivial = dir_audited and any(v >= 2 for v in h.n_adding_ops.values())
    elif prop == "C02":
        ctx.nontrivial = nt_c02
    else:
        ctx.nontrivial = nt_c06


class _Expected(Exception):
    pass


def _listing_modes(h, s):
    if STORES[s]["kind"] == "remote":
        objs, tmps = h.listing(s)
        return objs, tmps
    return model.raw_store_listing(h.w.p(h.dirname(s)), with_mode=True)


def _transient_ok(h, s, oid, data, faulted):
    """Documented, narrow tolerances (DESIGN §5 C01 guards)."""
    # a failed direct-to-final-name copy may leave an EMPTY unprotected file
    # (reflink window) only when a fault was injected in this very operation
    if faulted and STORES[s]["kind"] != "remote" and len(data) == 0:
        try:
            mode = REAL["os.lstat"](os.path.join(h.w.p(h.dirname(s)), oid[:2], oid[2:])).st_mode & 0o777
        except OSError:
            return None
        if mode != 0o444:
            return "empty_unprotected_leftover_of_injected_fault"
    return None


def _hi(oid, name="md5"):
    from dvc_data.hashfile.hash_info import HashInfo

    return HashInfo(name, oid)


def op_stage(h, op, n):
    from dvc_data.hashfile.build import build
    from dvc_data.hashfile.transfer import transfer
    from dvc_data.hashfile.tree import Tree

    ctx = h.ctx
    s = op["store"]
    algo = STORES[s]["hash"]
    odb = h.odb(s)
    ws = h.write_ws(op["tree"])
    fired0 = sum(ctx.seam.fired.values())
    edited = []
    me = op.get("mid_edit") if (op.get("upload") and ctx.prop == "C01") else None
    if any(d["tree"] == op["tree"] for d in h.deferred):
        me = None
    if me:
        # upload staging hashes the very stream it copies, so a concurrent editor can change what is
        # stored but never make the store file bytes under another content's name
        reads = [0]
        rels = sorted(h.trees[op["tree"]])
        victim = rels[int(me["pick"] * len(rels)) % len(rels)]

        def hook(path_read):
            if not path_read.startswith(ws + os.sep):
                return
            reads[0] += 1
            if reads[0] == me["after_reads"] + 1 and not edited:
                ctx.seam.read_hook = None
                nb = b"edited-meanwhile:" + h.contents[me["content"]]
                # replaced, not rewritten in place: the file may be a hard link to a store object
                REAL["os.unlink"](os.path.join(ws, victim))
                with REAL["open"](os.path.join(ws, victim), "wb") as f:
                    f.write(nb)
                ctx.clock.advance(10**9)
                ctx.seam.stamp(os.path.join(ws, victim))
                edited.append(victim)
                ctx.probe("workspace_file_rewritten_during_upload_staging")

        ctx.seam.read_hook = hook
    try:
        staging, meta, obj = build(
            odb, ws + (os.sep if op.get("trailing_sep") else ""), h.w.localfs, algo, upload=bool(op.get("upload")),
            checksum_jobs=h.cfg["jobs"],
        )
    finally:
        ctx.seam.read_hook = None
        if edited:
            h.ws_written[op["tree"]] = None  # the workspace no longer holds the model's bytes
    r = transfer(staging, odb, {obj.hash_info}, shallow=False, hardlink=bool(op.get("hardlink")), jobs=h.cfg["jobs"])
    faulted = sum(ctx.seam.fired.values()) > fired0 or bool(edited)
    doid, dbytes, ents = h.model_dir(op["tree"], algo)
    tb = h.tree_bytes(op["tree"])
    res = {}
    if ctx.prop == "C02" and not faulted:
        if obj.hash_info.value != doid:
            ctx.violate("staged-dir-id", algo, f"op{n}: got {obj.hash_info.value} want {doid} tree={h.trees[op['tree']]}")
        if meta.nfiles != len(tb) or meta.size != sum(len(b) for b in tb.values()):
            ctx.violate("staged-meta", "nfiles-or-size", f"op{n}: meta nfiles={meta.nfiles} size={meta.size} want {len(tb)}/{sum(len(b) for b in tb.values())}")
        if r.failed:
            ctx.violate("transfer-failed-without-fault", "stage", f"op{n}: {r.failed}")
        try:
            t = Tree.load(odb, obj.hash_info)
            got = {"/".join(k): hi.value for k, _, hi in t}
            if got != ents:
                ctx.violate("tree-reload", "listing-differs", f"op{n}: got {got} want {ents}")
        except Exception as exc:  # noqa: BLE001
            ctx.violate("tree-reload", "raised", repr(exc))
    if not faulted and not r.failed:
        h.complete.setdefault(s, {})[doid] = (op["tree"], dict(tb))
    return res


def op_stage_file(h, op, n):
    from dvc_data.hashfile.build import build
    from dvc_data.hashfile.transfer import transfer

    ctx = h.ctx
    s = op["store"]
    algo = STORES[s]["hash"]
    odb = h.odb(s)
    data = h.contents[op["content"]]
    path = h.w.p("wsf", f"f{n}")
    h.w.raw_write(path, data)
    fired0 = sum(ctx.seam.fired.values())
    staging, meta, obj = build(odb, path, h.w.localfs, algo)
    r = transfer(staging, odb, {obj.hash_info}, shallow=False)
    faulted = sum(ctx.seam.fired.values()) > fired0
    if ctx.prop == "C02" and not faulted:
        want = model.ref_digest(algo, data)
        if obj.hash_info.value != want or meta.size != len(data):
            ctx.violate("staged-file-id", algo, f"op{n}: got {obj.hash_info.value}/{meta.size} want {want}/{len(data)}")
        if r.failed:
            ctx.violate("transfer-failed-without-fault", "stage_file", f"op{n}: {r.failed}")
        objs = h.listing(s)[0]
        if objs.get(want) != data and algo == "md5":
            ctx.violate("file-roundtrip", "store-bytes", f"op{n}: store {s} lacks exact bytes for {want}")
        # check the single file out again
        dest = h.w.p("co", f"f{n}")
        h.w.mkdirs(os.path.dirname(dest))
        if STORES[s]["kind"] != "remote" and algo == "md5":
            from dvc_data.hashfile.checkout import checkout

            try:
                checkout(dest, h.w.localfs, odb.get(want), odb, force=True)
                with REAL["open"](dest, "rb") as f:
                    if f.read() != data:
                        ctx.violate("file-roundtrip", "checkout-bytes", f"op{n}")
            except Exception as exc:  # noqa: BLE001
                ctx.violate("file-roundtrip", "raised:" + type(exc).__name__, repr(exc))


def op_xfer(h, op, n):
    from dvc_data.hashfile.transfer import transfer

    ctx = h.ctx
    src, dest = h.odb(op["src"]), h.odb(op["dest"])
    ids, snaps = [], []
    for ti in op["trees"]:
        for doid, (t2, tb) in h.complete.get(op["src"], {}).items():
            if t2 == ti:
                ids.append(doid)
                snaps.append((doid, t2, tb))
    if not ids:
        return None
    req = [_hi(d) for d in ids]
    if op["shallow"]:
        for doid, _, tb in snaps:
            req.extend(_hi(model.ref_digest("md5", b)) for b in tb.values())
    fired0 = sum(ctx.seam.fired.values())
    r = transfer(src, dest, req, shallow=op["shallow"], hardlink=op["hardlink"] and STORES[op["dest"]]["kind"] != "remote",
                 verify=op["verify"], jobs=h.cfg["jobs"])
    faulted = sum(ctx.seam.fired.values()) > fired0
    if not faulted and not r.failed:
        for doid, t2, tb in snaps:
            h.complete.setdefault(op["dest"], {})[doid] = (t2, tb)
    elif not faulted and ctx.prop == "C02":
        ctx.violate("transfer-failed-without-fault", "xfer", f"op{n}: {r.failed}")
    return None


def op_index_save(h, op, n):
    from dvc_data.index import ObjectStorage
    from dvc_data.index import build as ibuild
    from dvc_data.index.checkout import apply, compare
    from dvc_data.index.save import md5, save

    ctx = h.ctx
    s = op["store"]
    odb = h.odb(s)
    ws = h.write_ws(op["tree"])
    fired0 = sum(ctx.seam.fired.values())
    idx = ibuild(ws, h.w.localfs)
    idx2 = md5(idx, state=h.st() if op.get("with_state") else None)
    idx2.storage_map.add_cache(ObjectStorage((), odb))
    save(idx2, jobs=h.cfg["jobs"])
    faulted = sum(ctx.seam.fired.values()) > fired0
    tb = h.tree_bytes(op["tree"])
    if ctx.prop == "C02" and not faulted:
        # every nested directory entry carries the id of its sub-tree
        subdirs = {}
        for rel in tb:
            parts = rel.split("/")
            for i in range(1, len(parts)):
                subdirs.setdefault(tuple(parts[:i]), {})["/".join(parts[i:])] = model.ref_digest("md5", tb[rel])
        for key, ents in sorted(subdirs.items()):
            want, _ = model.ref_dir(ents)
            ent = idx2.get(key)
            got = ent.hash_info.value if ent is not None and ent.hash_info else None
            if got != want:
                ctx.violate("index-save-dir-id", "nested", f"op{n}: key {key} got {got} want {want}")
        if op.get("apply"):
            dest = h.w.p("co", f"i{n}")
            h.w.mkdirs(dest)  # apply() expects the checkout root to exist (as in DVC)
            diff = compare(None, idx2)
            errs = []
            apply(diff, dest, h.w.localfs, storage="cache", onerror=lambda *a: errs.append(a))
            snap = model.files_of(model.snapshot(dest))
            if errs or snap != tb:
                ctx.violate(
                    "index-roundtrip", "apply-differs" if not errs else "apply-errors",
                    f"op{n}: errs={len(errs)} missing={sorted(set(tb) - set(snap))} extra={sorted(set(snap) - set(tb))} "
                    f"wrong={[r for r in tb if r in snap and snap[r] != tb[r]]}",
                )
            nested = any("/" in r for r in tb)
            dup = len(set(tb.values())) < len(tb)
            return {"nt_c02": nested and dup}
    return None


def op_migrate(h, op, n):
    from dvc_data.hashfile.db.migrate import migrate, prepare

    src = h.odb("L")
    dest = h.odb(op["dest"])
    mig = prepare(src, dest)
    migrate(mig)
    return None


def op_gc(h, op, n):
    from dvc_objects.errors import ObjectDBPermissionError

    from dvc_data.hashfile.gc import gc

    ctx = h.ctx
    s = op["store"]
    algo = STORES[s]["hash"]
    odb = h.odb(s)
    if op.get("dry_first") and not op.get("dry") and not op.get("read_only"):
        # "show, confirm, collect": a dry run with the very same used set on the same handle, then
        # another client adds objects, then the real run
        op_gc(h, dict(op, dry=True, dry_first=False, rm_fault=None), n)
        op_ext_add(h, {"store": s, "n": 1 + n % 3, "tag": 7000 + n}, n)
        ctx.probe("store_changed_between_dry_run_and_real_run")
    objs0, _ = h.listing(s)
    S = set(odb.all())
    Spick = sorted(S - h.ext_added) or sorted(S)
    used = []
    U = set()
    expand_src = h.odb(op["cache_odb"]) if op.get("cache_odb") else None
    src_objs = h.listing(op["cache_odb"])[0] if op.get("cache_odb") else objs0
    skip = False
    absent_dir = False
    for ti in op["used_trees"]:
        doid, dbytes, ents = h.model_dir(ti, algo)
        used.append(_hi(doid, algo))
        U.add(doid)
        if not op["shallow"]:
            if doid not in src_objs:
                absent_dir = True  # expanding needs the directory object in cache_odb
            U.update(ents.values())
    for ci in op["used_files"]:
        o = model.ref_digest(algo, h.contents[ci])
        used.append(_hi(o, algo))
        U.add(o)
    if op.get("used_absent"):
        o = hashlib.md5(b"absent%d" % n).hexdigest()  # noqa: S324
        used.append(_hi(o, algo))
        U.add(o)
    if op.get("used_other_algo") and S:
        # an id that IS in the store but carries another algorithm's name: not "used"
        o = Spick[int(op["used_present_pick"] * len(Spick)) % len(Spick)]
        used.append(_hi(o, "sha256" if algo == "md5" else "md5"))
    elif S and op["used_present_pick"] < 0.5:
        o = Spick[int(op["used_present_pick"] * 2 * len(Spick)) % len(Spick)]
        used.append(_hi(o, algo))
        U.add(o)
        if o.endswith(".dir") and not op["shallow"]:
            ents = model.parse_dir(src_objs.get(o, b"")) if o in src_objs else None
            if ents is None:
                skip = True
            else:
                U.update(ents.values())
    if op.get("used_strip_dir"):
        # the id of a stored DIRECTORY object given without its ".dir" suffix is a different id:
        # it names (at most) a file object and must not protect the directory object
        dirs_in_store = sorted(o for o in S if o.endswith(".dir"))
        if dirs_in_store:
            o = dirs_in_store[int(op["used_present_pick"] * len(dirs_in_store)) % len(dirs_in_store)]
            used.append(_hi(o[: -len(".dir")], algo))
            U.add(o[: -len(".dir")])
    if skip:
        return None
    if absent_dir:
        # the used directory object is not in cache_odb: the expansion cannot be computed. Refusing
        # (FileNotFoundError) without touching the store is fine; returning normally is fine too as
        # long as no object known to be used was removed.
        try:
            gc(odb, (u for u in used) if op.get("used_as_iter") else used, cache_odb=expand_src, shallow=False, dry=op["dry"])
        except FileNotFoundError:
            if set(h.listing(s)[0]) != set(objs0):
                ctx.violate("gc-raised-after-removing", "absent-used-dir", f"op{n}")
            return None
        except Exception as exc:  # noqa: BLE001
            if ctx.prop == "C06":
                ctx.violate("gc-raised", f"{type(exc).__name__}:absent-used-dir", f"op{n}: {exc!r}")
            return None
        if ctx.prop == "C06":
            lost = sorted(o for o in set(objs0) & U if o not in h.listing(s)[0])
            if lost and not op["dry"]:
                ctx.violate("gc-result", "removed-used:absent-used-dir", f"op{n}: lost used {[model.short(o) for o in lost]}")
        h.complete.get(s, {}).clear()
        return None
    if op.get("read_only"):
        odb.read_only = True
    rm_fired0 = ctx.seam.fired.get("gc_remove", 0)
    if op.get("rm_fault") and ctx.prop == "C06":
        ctx.seam.faults = [{"at": ("unlink", "remove", "r_rm"), "match": None, "nth": op["rm_fault"]["nth"],
                            "exc": op["rm_fault"]["exc"], "name": "gc_remove", "count": 1}]
    try:
        try:
            used_arg = (u for u in used) if op.get("used_as_iter") else used  # any Iterable is allowed
            ret = gc(odb, used_arg, cache_odb=expand_src, shallow=op["shallow"], dry=op["dry"])
        finally:
            odb.read_only = False
            ctx.seam.faults = []
    except ObjectDBPermissionError:
        if not op.get("read_only"):
            ctx.violate("gc-refused", "not-read-only", f"op{n}")
        elif set(h.listing(s)[0]) != set(objs0):
            ctx.violate("gc-read-only-modified", "any", f"op{n}")
        return None
    except Exception as exc:  # noqa: BLE001
        if ctx.prop != "C06":
            return None  # gc's own behaviour is C06's subject
        if ctx.seam.fired.get("gc_remove", 0) > rm_fired0 and isinstance(exc, OSError):
            # a removal failed and gc says so: the store is partly collected, which is fine as long
            # as nothing that is in use went away (a run that RETURNS is still held to the exact result)
            lost = sorted(o for o in S & U if o not in set(h.listing(s)[0]))
            if lost:
                ctx.violate("gc-result", "removed-used:after-failed-removal", f"op{n}: lost used {[model.short(o) for o in lost]}")
            h.complete.get(s, {}).clear()
            ctx.probe("gc_reported_failed_removal")
            return {"nt_c06": True}
        has_dir = any(u.value.endswith(".dir") for u in used if u.name == algo)
        disc = f"{type(exc).__name__}:" + ("expand-used-dir" if (has_dir and not op["shallow"]) else "other")
        ctx.violate("gc-raised", disc, f"op{n} {op}: {exc!r}")
        return None
    if ctx.prop != "C06":
        h.complete.get(s, {}).clear()
        return None
    if op.get("read_only"):
        ctx.violate("gc-read-only-not-refused", "any", f"op{n}")
        return None
    S1 = set(h.odb(s).all())
    want_removed = S - U
    if ret != len(want_removed):
        ctx.violate("gc-count", "dry" if op["dry"] else "real", f"op{n}: returned {ret} want {len(want_removed)}")
    want_after = S if op["dry"] else S & U
    if S1 != want_after:
        lost = sorted(S & U - S1)
        kept = sorted(S1 - want_after)
        ctx.violate(
            "gc-result", "removed-used" if lost else "kept-unused",
            f"op{n}: lost used {[model.short(o) for o in lost]} kept unused {[model.short(o) for o in kept]} "
            f"shallow={op['shallow']} dry={op['dry']}",
        )
    if not op["dry"]:
        for st_, snap in h.complete.items():
            if st_ == s:
                for d in list(snap):
                    snap.pop(d)
    return {"nt_c06": any(o.endswith(".dir") for o in S) and bool(S - U) and bool(S & U)}


def op_checkout(h, op, n):
    from dvc_data.hashfile.checkout import checkout
    from dvc_data.hashfile.tree import Tree

    ctx = h.ctx
    s = op["store"]
    odb = h.odb(s)
    cands = [(d, t2, tb) for d, (t2, tb) in h.complete.get(s, {}).items() if t2 == op["tree"]]
    if not cands:
        return None
    doid, _, tb = cands[-1]
    link = op["link"]
    if link == "reflink" and h.cfg["reflink"] != "cow":
        link = "copy"
    dest = h.w.p("co", f"c{n}")
    if op.get("reuse_dest"):
        # the same location is checked out into again after the user removed it
        dest = h.w.p("co", "again")
        if os.path.lexists(dest):
            REAL["shutil.rmtree"](dest)
    h.w.mkdirs(os.path.dirname(dest))
    if op["via"] == "index":
        from dvc_data.hashfile.meta import Meta
        from dvc_data.index import DataIndex, DataIndexEntry, ObjectStorage
        from dvc_data.index.checkout import apply, compare

        idx = DataIndex()
        if op.get("twice"):
            # the same directory object tracked under two names (train/ and val/ with identical listings)
            for mnt in ("m1", "m2"):
                idx[(mnt,)] = DataIndexEntry(key=(mnt,), meta=Meta(isdir=True), hash_info=_hi(doid))
            tb = {f"{mnt}/{rel}": b for mnt in ("m1", "m2") for rel, b in tb.items()}
            h.w.mkdirs(dest)
            ctx.probe("same_directory_object_under_two_names")
        else:
            idx[()] = DataIndexEntry(key=(), meta=Meta(isdir=True), hash_info=_hi(doid))
        idx.storage_map.add_cache(ObjectStorage((), odb))
        diff = compare(None, idx)
        errs = []
        apply(diff, dest, h.w.localfs, storage="cache", links=[link], onerror=lambda *a: errs.append(a))
        if errs:
            ctx.violate("roundtrip", "index-apply-errors", f"op{n}: {errs[:2]}")
    else:
        old_types = odb.cache_types
        odb.cache_types = [link]
        try:
            obj = Tree.load(odb, _hi(doid))
            checkout(dest, h.w.localfs, obj, odb, force=True, state=h.st() if op.get("with_state") else None)
        finally:
            odb.cache_types = old_types
    snap = model.files_of(model.snapshot(dest))
    if snap != tb:
        ctx.violate(
            "roundtrip", f"{op['via']}:{link}",
            f"op{n}: missing={sorted(set(tb) - set(snap))} extra={sorted(set(snap) - set(tb))} "
            f"wrong={[r for r in tb if r in snap and snap[r] != tb[r]]}",
        )
    nested = any("/" in r for r in tb)
    dup = len(set(tb.values())) < len(tb)
    return {"nt_c02": nested and dup}


def op_edit(h, op, n):
    if any(d["tree"] == op["tree"] for d in h.deferred):
        return None  # its workspace directory is referred to by a staging that has not been transferred yet
    t = h.trees[op["tree"]]
    name = op["name"]
    if any(k == name or k.startswith(name + "/") or name.startswith(k + "/") for k in t if k != name):
        return None
    t[name] = op["content"]
    return None


def op_evict(h, op, n):
    s = op["store"]
    objs, _ = h.listing(s)
    if not objs:
        return None
    cand = sorted(objs)
    if op.get("prefer_dir") and any(o.endswith(".dir") for o in cand):
        cand = [o for o in cand if o.endswith(".dir")]
    o = cand[int(op["pick"] * len(cand)) % len(cand)]
    h.w.raw_rm(h.dirname(s), STORES[s]["kind"], o)
    h.complete.get(s, {}).clear()
    return None


def op_stage_defer(h, op, n):
    from dvc_data.hashfile.build import build

    s = op["store"]
    odb = h.odb(s)
    ws = h.write_ws(op["tree"])
    staging, meta, obj = build(odb, ws, h.w.localfs, STORES[s]["hash"], checksum_jobs=h.cfg["jobs"])
    h.deferred.append({"store": s, "tree": op["tree"], "staging": staging, "obj": obj, "bytes": dict(h.tree_bytes(op["tree"]))})
    h.ctx.probe("staging_kept_for_a_later_transfer")
    return None


def op_xfer_deferred(h, op, n):
    from dvc_data.hashfile.transfer import transfer

    if not h.deferred:
        return None
    d = h.deferred.pop(int(op["pick"] * len(h.deferred)) % len(h.deferred))
    odb = h.odb(d["store"])
    r = transfer(d["staging"], odb, {d["obj"].hash_info}, shallow=False, jobs=h.cfg["jobs"])
    if not r.failed:
        doid, _ = model.ref_dir({rel: model.ref_digest("md5", b) for rel, b in d["bytes"].items()})
        h.complete.setdefault(d["store"], {})[doid] = (d["tree"], d["bytes"])
    return {"nt_c02": False}


def op_edit_disk(h, op, n):
    ti = op["tree"]
    if h.ws_written.get(ti) is None:
        return None
    if any(d["tree"] == ti for d in h.deferred):
        if not op.get("abandon"):
            return None  # a staged-but-not-yet-transferred directory is left alone (hash-then-copy is not atomic)
        # ... unless its staging is given up: it will never be transferred
        h.deferred = [d for d in h.deferred if d["tree"] != ti]
        h.ctx.probe("staging_abandoned_after_edit")
    path = h.w.p(f"ws{ti}")
    rels = sorted(h.ws_written[ti])
    rel = rels[int(op["pick"] * len(rels)) % len(rels)]
    fp = os.path.join(path, rel)
    REAL["os.unlink"](fp)
    with REAL["open"](fp, "wb") as f:
        f.write(b"rewritten-on-disk-%d\n" % op["tag"])
    h.ctx.clock.advance(10**9)
    h.ctx.seam.stamp(fp)
    h.ws_written[ti] = None  # the next staging of this tree writes the model's bytes again
    h.ctx.probe("workspace_file_rewritten_on_disk")
    return None


def op_future_mtime(h, op, n):
    s = op["store"]
    if STORES[s]["kind"] == "remote":
        return None
    objs, _ = h.listing(s)
    if not objs:
        return None
    cand = sorted(objs)
    o = cand[int(op["pick"] * len(cand)) % len(cand)]
    fp = os.path.join(h.w.p(h.dirname(s)), o[:2], o[2:])
    t = 4102444800 * 10**9  # 2100-01-01
    REAL["os.utime"](fp, ns=(t, t))
    h.ctx.probe("store_object_with_future_mtime")
    return None


def op_ext_add(h, op, n):
    s = op["store"]
    algo = STORES[s]["hash"]
    for k in range(op["n"]):
        data = b"added-by-another-client-%d-%d\n" % (op["tag"], k)
        h.w.raw_add(h.dirname(s), STORES[s]["kind"], model.ref_digest(algo, data), data)
        h.ext_added.add(model.ref_digest(algo, data))
    h.ctx.probe("objects_added_by_another_client")
    return None


OPS = {
    "ext_add": op_ext_add, "future_mtime": op_future_mtime, "stage_defer": op_stage_defer, "xfer_deferred": op_xfer_deferred, "edit_disk": op_edit_disk,
    "stage": op_stage, "stage_file": op_stage_file, "xfer": op_xfer, "index_save": op_index_save,
    "migrate": op_migrate, "gc": op_gc, "checkout": op_checkout, "edit": op_edit, "evict": op_evict,
}  # fmt: skip
