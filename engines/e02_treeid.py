"""E2 `treeid` — C03: a directory's identifier is a canonical, deterministic
function of its (relative path, digest) set.  The id is obtained along many
routes (insertion orders, listing orders, sequential / pool hashing with
seeded completion orders, cold / warm / touched state, sub-tree extraction)
that must all agree with an independent canonical encoder.  DESIGN §5 C03.
"""

import os
import random

from simkit import gen, model
from simkit.harness import HarnessError, World
from simkit.seam import REAL

TIERS = {"C03": {"quick": 1200, "thorough": 10000}}
LEVEL = {"C03": "exploration"}
RULE = {
    "C03": "scenario = entry set over names that include prefixes of each other, characters "
    "below '/', non-ASCII and names whose byte order differs from code-point order; routes "
    "per scenario: Tree.add in 3 seeded permutations; build() under permuted listing order "
    "with checksum_jobs x large-file threshold sending files down the sequential or the pool "
    "path (SimExecutor completion permutations); cold state, warm state, warm state after "
    "touching mtimes / chmod +x at a later simulated time; from_list(as_list()) round trip; "
    "get_obj for every directory prefix vs the independently encoded sub-tree; near-miss "
    "sets must serialise differently. evaluations = routes executed; non-trivial = scenario "
    "with >=2 files and >=1 nested directory whose routes included the pool path; distinct = "
    "scenario digest.",
}

FILES = ["a", "b", "a.b", "a b", "a-b", "a+b", "a0", "ab", "data", "data.csv", "data-old", "Z", "z", "ü", "\u00e9", "e\u0301",
         "u\u0308", "名", "_", "0"]  # NFC and NFD spellings are different file names on Linux
DIRS = ["a", "data", "d", "ü", "u\u0308", "z", "a b", "名", "data-old", "dat"]


def generate(prop, rng):
    pool = gen.content_pool(rng, n=rng.randint(2, 6))
    tree = {}
    for _ in range(rng.randint(1, 9)):
        depth = rng.choice([0, 0, 1, 1, 2, 3])
        parts = [rng.choice(DIRS) for _ in range(depth)] + [rng.choice(FILES)]
        rel = "/".join(parts)
        if rel in tree or any(k.startswith(rel + "/") or rel.startswith(k + "/") for k in tree):
            continue
        tree[rel] = rng.randrange(len(pool))
    if not tree:
        tree["a"] = 0
    return {
        "prop": prop,
        "cfg": {
            "jobs": rng.choice([1, 2, 4, None]),
            "big_threshold": rng.choice([None, 0, 0, 3]),
            "tick_ns": rng.choice([1000, 1_000_000, 1_000_000_000]),
            "reflink": "enotsup",
            "perm_seed": rng.randrange(10**9),
            # pool tasks as pre-empted threads (chunk reads are yield points) instead of inline
            "pool_interleave": rng.random() < 0.6,
        },
        "contents": [gen.enc(b) for b in pool],
        "tree": tree,
    }


def valid(sc):
    n = len(sc["contents"])
    t = sc["tree"]
    if not t or any(ci >= n for ci in t.values()):
        return False
    ks = sorted(t)
    return not any(b.startswith(a + "/") for a in ks for b in ks if a != b)


def shrink_paths(sc):
    return [("dict", ("tree",))]


def simplify(sc):
    import copy

    for k, v in {"jobs": 1, "tick_ns": 1_000_000, "pool_interleave": False}.items():
        if sc["cfg"].get(k) != v:
            c = copy.deepcopy(sc)
            c["cfg"][k] = v
            yield c
    for i, cont in enumerate(sc["contents"]):
        want = gen.enc(b"c%d" % i)
        if cont != want:
            c = copy.deepcopy(sc)
            c["contents"][i] = want
            yield c


def execute(sc, ctx):
    if not valid(sc):
        raise HarnessError("scenario violates the engine's preconditions")
    from dvc_data.hashfile import build as hbuild
    from dvc_data.hashfile.build import build
    from dvc_data.hashfile.hash_info import HashInfo
    from dvc_data.hashfile.meta import Meta
    from dvc_data.hashfile.tree import Tree

    from simkit import executor

    cfg = sc["cfg"]
    ctx.seam.pool_interleave = bool(cfg.get("pool_interleave"))
    thr = cfg.get("big_threshold")
    if thr is not None:
        for fn in (hbuild._build_files, hbuild._get_hashes):
            d = list(fn.__defaults__)
            d[-1] = thr
            fn.__defaults__ = tuple(d)
    w = World(ctx)
    contents = [gen.dec(c) for c in sc["contents"]]
    foid = [model.ref_digest("md5", b) for b in contents]
    ents = {rel: foid[ci] for rel, ci in sc["tree"].items()}
    want_oid, want_bytes = model.ref_dir(ents)
    prng = random.Random(cfg["perm_seed"])
    routes = 0

    def check(route, oid, raw=None):
        nonlocal routes
        routes += 1
        if oid != want_oid:
            ctx.violate("dir-id-differs", route, f"{oid} != {want_oid} for {ents}")
        elif raw is not None and raw != want_bytes:
            ctx.violate("dir-bytes-not-canonical", route, f"{raw[:120]!r}")

    digested = []  # (route, Tree) whose serialised object is read back at the very end
    # -- route 1: insertion order ------------------------------------------
    items = sorted(ents.items())
    for _ in range(3):
        prng.shuffle(items)
        t = Tree()
        for rel, oid in items:
            t.add(tuple(rel.split("/")), Meta(size=prng.randrange(100), isexec=prng.random() < 0.3), HashInfo("md5", oid))
        t.digest()
        check("Tree.add-permuted", t.hash_info.value, t.as_bytes())
        digested.append(("Tree.add-permuted", t))
        # the id never depends on metadata, also when the object is asked to CARRY its metadata
        tm = Tree()
        for key, meta, hi in t:
            tm.add(key, meta, hi)
        tm.digest(with_meta=True)
        check("Tree.digest(with_meta)", tm.hash_info.value)
        # -- route: from_list(as_list()) is the identity
        t2 = Tree.from_list(t.as_list())
        t2.digest()
        check("from_list(as_list)", t2.hash_info.value, t2.as_bytes())
        if {k: hi.value for k, _, hi in t2} != {tuple(r.split("/")): o for r, o in ents.items()}:
            ctx.violate("from_list-roundtrip", "entries", "entries differ after as_list/from_list")
    # -- route 2: build() from the filesystem ------------------------------
    ws = w.p("ws")
    w.write_tree(ws, {rel: contents[ci] for rel, ci in sc["tree"].items()})
    state = w.state("tmp", root_dir=ws)
    odb_cold = w.odb("cache", "local")
    odb_state = w.odb("cache2", "local", state=state)
    pools0 = executor.STATS["unordered_batches"]
    if cfg.get("legacy_first", True):
        # the same State was first warmed by a build under the LEGACY algorithm
        # (rows named md5-dos2unix for the very same paths)
        build(odb_state, ws, w.localfs, "md5-dos2unix", dry_run=True, checksum_jobs=cfg["jobs"])
        routes += 1
    for route, odb in (("build-no-state", odb_cold), ("build-cold-state", odb_state), ("build-warm-state", odb_state)):
        _, meta, obj = build(odb, ws, w.localfs, "md5", dry_run=True, checksum_jobs=cfg["jobs"])
        check(route, obj.hash_info.value, obj.as_bytes())
    # touch mtimes / chmod +x at a later time: metadata must not matter
    ctx.clock.advance(5 * 10**9)
    for rel in sorted(ents):
        p = os.path.join(ws, rel)
        if prng.random() < 0.5:
            ctx.seam.stamp(p)
        if prng.random() < 0.3:
            REAL["os.chmod"](p, 0o755)
    _, _, obj = build(odb_state, ws, w.localfs, "md5", dry_run=True, checksum_jobs=cfg["jobs"])
    check("build-after-touch-chmod", obj.hash_info.value, obj.as_bytes())
    used_pool = executor.STATS["unordered_batches"] > pools0
    # without a hash-state cache what is on disk gets hashed, whatever this process has hashed before: one
    # file is rewritten in place with other bytes of the same length and its old mtime put back
    victim = sorted(ents)[prng.randrange(len(ents))]
    vp = os.path.join(ws, victim)
    old_b = contents[sc["tree"][victim]]
    if len(old_b) > 0:
        st0 = REAL["os.stat"](vp)
        new_b = bytes((b + 1) % 256 for b in old_b)
        with REAL["open"](vp, "r+b") as f:
            f.write(new_b)
        REAL["os.utime"](vp, ns=(st0.st_mtime_ns, st0.st_mtime_ns))
        ents_inv = dict(ents)
        ents_inv[victim] = model.ref_digest("md5", new_b)
        _, _, obj = build(odb_cold, ws, w.localfs, "md5", dry_run=True, checksum_jobs=cfg["jobs"])
        routes += 1
        if obj.hash_info.value != model.ref_dir(ents_inv)[0]:
            ctx.violate("dir-id-differs", "build-no-state-after-invisible-rewrite", f"{victim} rewritten in place, same size and mtime")
        with REAL["open"](vp, "r+b") as f:
            f.write(old_b)
        REAL["os.utime"](vp, ns=(st0.st_mtime_ns, st0.st_mtime_ns))
    # -- route 3: sub-tree extraction ---------------------------------------
    full = Tree()
    for rel, oid in ents.items():
        full.add(tuple(rel.split("/")), None, HashInfo("md5", oid))
    full.digest()
    prefixes = sorted({tuple(r.split("/")[:i]) for r in ents for i in range(1, len(r.split("/")))})
    for pref in prefixes:
        sub = {"/".join(r.split("/")[len(pref):]): o for r, o in ents.items() if tuple(r.split("/")[: len(pref)]) == pref}
        s_oid, s_bytes = model.ref_dir(sub)
        got = full.get_obj(odb_cold, pref)
        routes += 1
        if got is None or got.hash_info.value != s_oid:
            ctx.violate("subtree-id-differs", f"depth{len(pref)}", f"prefix {pref}: {got.hash_info.value if got else None} != {s_oid}")
        _, _, direct = build(odb_cold, os.path.join(ws, *pref), w.localfs, "md5", dry_run=True)
        routes += 1
        if direct.hash_info.value != s_oid:
            ctx.violate("subdir-build-differs", f"depth{len(pref)}", f"prefix {pref}")
    # -- replacing an existing entry after the tree has been queried ---------
    if prefixes:
        rel_in = sorted(r for r in ents if "/" in r)[prng.randrange(len([r for r in ents if "/" in r]))]
        new_oid = model.ref_digest("md5", b"replaced:" + rel_in.encode())
        full.add(tuple(rel_in.split("/")), None, HashInfo("md5", new_oid))
        ents2 = dict(ents)
        ents2[rel_in] = new_oid
        for pref in prefixes:
            if tuple(rel_in.split("/")[: len(pref)]) != pref:
                continue
            sub = {"/".join(r.split("/")[len(pref):]): o for r, o in ents2.items() if tuple(r.split("/")[: len(pref)]) == pref}
            s_oid, _ = model.ref_dir(sub)
            got = full.get_obj(odb_cold, pref)
            routes += 1
            if got is None or got.hash_info.value != s_oid:
                ctx.violate("subtree-id-differs", "after-replacing-an-entry", f"prefix {pref}")
        full.digest()
        routes += 1
        if full.hash_info.value != model.ref_dir(ents2)[0]:
            ctx.violate("dir-id-differs", "after-replacing-an-entry", rel_in)
    # -- near misses must serialise differently ---------------------------
    base = Tree()
    for rel, oid in ents.items():
        base.add(tuple(rel.split("/")), None, HashInfo("md5", oid))
    rel0 = sorted(ents)[prng.randrange(len(ents))]
    variants = []
    v1 = dict(ents)
    v1[rel0] = model.ref_digest("md5", b"other" + rel0.encode())
    variants.append(("digest-changed", v1))
    v2 = dict(ents)
    v2[rel0 + "x"] = v2.pop(rel0)
    variants.append(("path-changed", v2))
    if len(ents) > 1:
        v3 = dict(ents)
        v3.pop(rel0)
        variants.append(("entry-dropped", v3))
    for name, v in variants:
        t = Tree()
        for rel, oid in v.items():
            t.add(tuple(rel.split("/")), None, HashInfo("md5", oid))
        routes += 1
        if t.as_bytes() == base.as_bytes():
            ctx.violate("different-sets-same-bytes", name, f"{v} vs {ents}")
    # the serialised object each digested tree points at (what a store would be given) is still its OWN
    # listing after other trees - other ids, same algorithm - have been digested since
    for obj_ in (full, base):
        digested.append(("later-tree", obj_))
    base.digest()
    import hashlib as _hl

    for route, tr in digested:
        routes += 1
        try:
            raw = tr.fs.cat_file(tr.path)
        except Exception as exc:  # noqa: BLE001
            ctx.violate("tree-object-unreadable", route, repr(exc))
            continue
        if _hl.md5(raw).hexdigest() + ".dir" != tr.hash_info.value:  # noqa: S324
            ctx.violate("tree-object-bytes-differ", route, f"object behind {tr.hash_info.value} holds other bytes ({len(raw)})")
    state.close()
    ctx.extra["subruns"] = routes
    nested = any("/" in r for r in ents)
    ctx.extra["nontrivial_subruns"] = routes if (len(ents) >= 2 and nested and used_pool) else 0
    ctx.nontrivial = len(ents) >= 2 and nested and used_pool
    if used_pool:
        ctx.probe("parallel_hashing_path")
