"""E3 `xfer` — C04 (closed destination under upload faults), C11 (truthful
transfer result, open world), C12 (status exactness / remote index coherence).

DESIGN §5 C04, C11, C12.  The fault space of each sampled scenario (every
single-object upload failure; every failure subset up to a size bound) is
enumerated inside `execute`; scenarios themselves are sampled by seed.
"""

import itertools
import random

from simkit import gen, model
from simkit.harness import World

TIERS = {
    "C04": {"quick": 1200, "thorough": 10000},
    "C11": {"quick": 1200, "thorough": 10000},
    "C12": {"quick": 2400, "thorough": 20000},
}
LEVEL = {"C04": "fault_enumeration", "C11": "fault_enumeration", "C12": "exploration"}
RULE = {
    "C04": "scenario = 1-3 trees sharing files + closed request + closed pre-populated "
    "destination (local / generic / SimRemoteFS, optional remote index); per scenario "
    "every single-object upload failure and every failure subset (all if <=6 new "
    "objects, else singles + 40 sampled) is executed, each followed by a clean retry; "
    "closure is checked after every destination mutation.  Non-trivial sub-run: a "
    "directory with >=2 files was attempted and >=1 fault fired; distinct = distinct "
    "(scenario digest, failure subset).",
    "C11": "scenario = open-world request (shallow or expanded) over arbitrary source / "
    "destination contents, ids missing on both sides, corrupt sources under verify; "
    "fault subsets enumerated as for C04.  Non-trivial sub-run: new set non-empty and "
    "(fault fired or id missing on both sides or id already present or corrupt source "
    "under verify); distinct = distinct (scenario digest, failure subset).",
    "C12": "history of 3-10 operations (status / compare_status / closed transfer clean "
    "or faulty / external delete) on stores sharing one ObjectDBIndex, or index-free "
    "status queries on random store contents with lookup-strategy knobs randomised. "
    "Non-trivial: a query was answered while the index held entries, or an index-free "
    "query of >=2 ids with both present and absent ids; distinct = scenario digest.",
}


# ------------------------------------------------------------------ generate
def _gen_trees(rng, pool_n):
    ntrees = gen.weighted(rng, [(3, 1), (4, 2), (3, 3)])
    trees = []
    for _ in range(ntrees):
        t = gen.gen_tree(
            rng, range(pool_n), max_files=rng.randint(1, 5), max_depth=rng.choice([0, 1, 2])
        )
        trees.append(t)
    if ntrees >= 2 and rng.random() < 0.75:
        for j in range(1, ntrees):
            src = trees[rng.randrange(j)]
            for rel in rng.sample(sorted(src), min(len(src), rng.randint(1, 2))):
                if rng.random() < 0.5 and not any(
                    k == rel or k.startswith(rel + "/") or rel.startswith(k + "/")
                    for k in trees[j]
                ):
                    trees[j][rel] = src[rel]
                else:
                    name = "s%d" % rng.randrange(100)
                    trees[j][name] = src[rel]
    if rng.random() < 0.1:
        trees.append(dict(trees[0]))
    if rng.random() < 0.08:
        trees.append({})  # the object of an empty directory: listing "[]"
    return trees


def _gen_cfg(rng, prop):
    src_kind = rng.choice(["local", "generic"])
    dest_kind = gen.weighted(rng, [(3, "local"), (2, "generic"), (4, "remote")])
    cfg = {
        "src_kind": src_kind,
        "dest_kind": dest_kind,
        "use_index": rng.random() < 0.5,
        "jobs": rng.choice([1, 2, 4, None]),
        "shallow": rng.random() < 0.65,
        "reflink": gen.weighted(rng, [(5, "enotsup"), (3, "nocow"), (2, "cow")]),
        "hardlink": dest_kind != "remote" and rng.random() < 0.15,
        "verify": False,
        "tick_ns": rng.choice([1000, 1_000_000, 1_000_000_000]),
        "page_size": rng.choice([1000, 1000, 16, 2]),
        "cache_odb": rng.choice([None, "src", "dest"]),
    }
    if not cfg["shallow"] and cfg["cache_odb"] == "dest":
        cfg["cache_odb"] = rng.choice([None, "src"])
    if prop == "C11":
        # a second round through the SAME store handles after another client delivered part of what
        # is still missing (the handles hold memoised listings of the store's fan-out directories)
        cfg["second_round"] = rng.random() < 0.4
        cfg["req_as_iter"] = rng.random() < 0.25  # the request is any Iterable: here a one-shot iterator
        # objects already in a local-class destination lack the read-only mark (placed, not yet protected):
        # its existence query re-hashes them; they are there all the same (the empty object included)
        cfg["dest_unprotected"] = rng.random() < 0.3
        cfg["ext_seed"] = rng.randrange(10**6)
    return cfg


def _fault_for(rng, cfg):
    if cfg["dest_kind"] == "remote":
        stage = gen.weighted(rng, [(6, "put_lost"), (3, "ack_lost")] + ([(4, "partial")] if cfg.get("non_atomic") else []))
        exc = rng.choice(["ConnectionError", "EIO", "TimeoutError", "EACCES"])
        # round 7: a partial put may also end in a permission error (credentials expiring in the middle of a
        # multi-part upload): the transfer's "already there and write-protected" tolerance must not take the
        # leftover for the object
    else:
        stages = [(5, "create"), (3, "mid"), (2, "rename")]
        if cfg["reflink"] == "cow" or cfg["hardlink"]:
            stages = [(1, "create")]
        elif cfg.get("_prop") == "C04":
            stages.append((2, "src_gone"))
        stage = gen.weighted(rng, stages)
        exc = "ENOSPC" if stage == "mid" else rng.choice(["EIO", "ENOSPC", "EACCES"])
    return {"stage": stage, "exc": exc}


def generate(prop, rng):
    if prop == "C12":
        return _gen_c12(rng)
    pool = gen.content_pool(rng, n=rng.randint(3, 7))
    if prop == "C11" and b"" not in pool and rng.random() < 0.4:
        pool[rng.randrange(len(pool))] = b""  # the empty file is an object like any other
    trees = _gen_trees(rng, len(pool))
    cfg = _gen_cfg(rng, prop)
    cfg["_prop"] = prop
    loose = rng.sample(range(len(pool)), rng.randint(0, 2))
    tlabels = [f"T{i}" for i in range(len(trees))]
    req_trees = [t for t in tlabels if rng.random() < 0.85] or [tlabels[0]]
    children = {t: sorted({f"c{ci}" for ci in trees[int(t[1:])].values()}) for t in tlabels}
    sc = {
        "prop": prop,
        "cfg": cfg,
        "contents": [gen.enc(b) for b in pool],
        "trees": trees,
    }
    if prop == "C04":
        request = list(req_trees) + [f"c{c}" for c in loose]
        if cfg["shallow"]:
            for t in req_trees:
                request.extend(children[t])
        request = sorted(set(request))
        src = set(request)
        for t in req_trees:
            src.update(children[t])
        dest = set()
        for t in tlabels:
            if rng.random() < 0.25:
                dest.add(t)
                dest.update(children[t])
            else:
                for c in children[t]:
                    if rng.random() < 0.15:
                        dest.add(c)
        for c in loose:
            if rng.random() < 0.3:
                dest.add(f"c{c}")
        indexed, vanished = [], []
        if cfg["use_index"] and rng.random() < 0.5:
            # an earlier successful push indexed these trees; some of them have
            # since vanished from the destination (another client's gc)
            indexed = sorted(t for t in tlabels if t in dest and set(children[t]) <= dest and rng.random() < 0.8)
            vanished = sorted(t for t in indexed if rng.random() < 0.5)
            vanished = sorted({b for a in vanished for b in tlabels if trees[int(a[1:])] == trees[int(b[1:])]})
            indexed = sorted(set(indexed) | set(vanished))
            keep = set()
            for t in tlabels:
                if t in dest and t not in vanished:
                    keep.update(children[t])
            for t in vanished:
                dest.discard(t)
                for c in children[t]:
                    if c not in keep and rng.random() < 0.7:
                        dest.discard(c)
        src_missing = []
        if rng.random() < 0.3:
            cand = sorted(l for l in src if l.startswith("c") and l not in dest)
            if cand:
                src_missing = rng.sample(cand, rng.randint(1, min(2, len(cand))))
        # (with an index carried over from an earlier push the request goes through push() more often: the
        # persisted index is then the one push() opens itself)
        cfg["via_push"] = bool(cfg["shallow"] and not cfg["hardlink"] and rng.random() < (0.5 if indexed else 0.3))
        if cfg["via_push"]:
            cfg["cache_odb"] = "dest"
        # round 7: a destination whose puts are not atomic (a failed upload may leave a truncated object)
        cfg["non_atomic"] = cfg["dest_kind"] == "remote" and rng.random() < 0.3
        sc.update(
            request=request, src=sorted(src - set(src_missing)), dest=sorted(dest), corrupt={},
            src_missing=sorted(src_missing), indexed=indexed, vanished=vanished,
        )
    else:  # C11: open world
        cfg["verify"] = rng.random() < 0.4
        cfg["dest_state"] = cfg["dest_kind"] != "remote" and rng.random() < 0.4
        cfg["non_atomic"] = cfg["dest_kind"] == "remote" and rng.random() < 0.3
        request = []
        for t in req_trees:
            request.append(t)
            if cfg["shallow"]:
                request.extend(c for c in children[t] if rng.random() < 0.8)
        request.extend(f"c{c}" for c in loose)
        request = sorted(set(request))
        universe = set(request)
        for t in tlabels:
            universe.add(t)
            universe.update(children[t])
        src, dest = set(), set()
        for lab in sorted(universe):
            if lab.startswith("T"):
                if rng.random() < 0.9 or not cfg["shallow"]:
                    src.add(lab)
            elif rng.random() < 0.85:
                src.add(lab)
        closed_dest = cfg["use_index"]
        for t in tlabels:
            if rng.random() < 0.25:
                dest.add(t)
                if closed_dest:
                    dest.update(children[t])
        for lab in sorted(universe):
            if not lab.startswith("T") and rng.random() < 0.2:
                dest.add(lab)
        corrupt = {}
        # corrupt source objects under verify: unprotected ones in the generic class, and - bit rot in a
        # cache or local remote - write-protected ones in the local class (which its own existence query trusts)
        if cfg["verify"]:
            if cfg["src_kind"] == "local" and cfg["dest_kind"] != "remote" and rng.random() < 0.5:
                cfg["hardlink"] = True
            for lab in sorted(src):
                if not lab.startswith("T") and rng.random() < 0.25:
                    corrupt[lab] = rng.choice(["append", "truncate", "rewrite"])
        indexed, vanished = [], []
        if cfg["use_index"] and rng.random() < 0.6:
            indexed = sorted(t for t in tlabels if t in dest and rng.random() < 0.8)
            vanished = sorted(t for t in indexed if rng.random() < 0.5)
            # identical trees share one oid: they vanish together
            vanished = sorted(
                {b for a in vanished for b in tlabels if trees[int(a[1:])] == trees[int(b[1:])]}
            )
            indexed = sorted(set(indexed) | set(vanished))
            keep = set()
            for t in tlabels:
                if t in dest and t not in vanished:
                    keep.update(children[t])
            for t in vanished:
                dest.discard(t)
                for c in children[t]:
                    if c not in keep and rng.random() < 0.7:
                        dest.discard(c)
        sc.update(request=request, src=sorted(src), dest=sorted(dest), corrupt=corrupt,
                  indexed=indexed, vanished=vanished)
    labs = sorted(set(sc["src"]) | set(sc["request"]) | set(sc.get("src_missing", [])))
    sc["fault_kinds"] = {lab: _fault_for(rng, cfg) for lab in labs}
    sc["subsets"] = {"mode": "enumerate", "cap": 40, "sample_seed": rng.randrange(10**9)}
    return sc


def M_same_oid(trees, a, b):
    return a != b and trees[int(a[1:])] == trees[int(b[1:])]


# --------------------------------------------------------------------- model
class M:
    def __init__(self, sc):
        self.contents = [gen.dec(c) for c in sc["contents"]]
        self.foid = [model.ref_digest("md5", b) for b in self.contents]
        self.oid = {}
        self.bytes = {}
        self.children = {}
        self.labels_of = {}
        for i, b in enumerate(self.contents):
            self.oid[f"c{i}"] = self.foid[i]
            self.bytes[self.foid[i]] = b
        for i, t in enumerate(sc["trees"]):
            ents = {rel: self.foid[ci] for rel, ci in t.items()}
            doid, dbytes = model.ref_dir(ents)
            self.oid[f"T{i}"] = doid
            self.bytes[doid] = dbytes
            self.children[doid] = sorted(set(ents.values()))
        for lab, oid in self.oid.items():
            self.labels_of.setdefault(oid, []).append(lab)

    def lab(self, oid):
        return "|".join(self.labels_of.get(oid, [model.short(oid)]))

    def expand(self, oids):
        out = set(oids)
        for o in oids:
            out.update(self.children.get(o, ()))
        return out


def _corrupt(data, how):
    if how == "append":
        return data + b"!"
    if how == "truncate":
        return data[:-1] if data else b"x"
    return (b"X" + data[1:]) if data and data[:1] != b"X" else b"Y" + data[1:]


def _hi(oid):
    from dvc_data.hashfile.hash_info import HashInfo

    return HashInfo("md5", oid)


def _set_knobs(cfg):
    from dvc_objects.fs.base import FileSystem

    FileSystem.LIST_OBJECT_PAGE_SIZE = cfg.get("page_size", 1000)


def _fault_rules(sc, m, labels, world=None):
    rules = []
    for lab in labels:
        fk = sc["fault_kinds"][lab]
        oid = m.oid[lab]
        match = f"{oid[:2]}/{oid[2:]}"
        if fk["stage"] == "src_gone":
            # another process removes the object from the SOURCE after the status was
            # collected and before it is uploaded: the upload then fails on its own
            def vanish(oid=oid, world=world):
                world.raw_rm("src", sc["cfg"]["src_kind"], oid)

            rules.append({"at": ("copy_open_src",), "match": match, "action": vanish, "name": "src_gone", "count": 1})
            continue
        at = {
            "create": ("copy_create", "link", "os_open_w"),
            "mid": ("copy_mid",),
            "rename": ("rename",),
            "put_lost": ("r_put",),
            "ack_lost": ("r_put_ack",),
            "partial": ("r_put_mid",),
        }[fk["stage"]]
        rules.append(
            {"at": at, "match": match, "exc": fk["exc"], "name": fk["stage"], "count": 1}
        )
    return rules


def _subsets(sc, new_labels):
    sub = sc["subsets"]
    if sub["mode"] == "only":
        return [list(s) for s in sub["sets"]]
    labs = sorted(new_labels)
    out = [[]]
    out += [[x] for x in labs]
    if len(labs) <= 6:
        for r in range(2, len(labs) + 1):
            out += [list(c) for c in itertools.combinations(labs, r)]
    else:
        rng = random.Random(sub["sample_seed"])
        seen = set()
        for _ in range(sub["cap"]):
            k = rng.randint(2, len(labs))
            s = tuple(sorted(rng.sample(labs, k)))
            if s not in seen:
                seen.add(s)
                out.append(list(s))
    return out


class Run:
    """One sub-run: fresh sub-world, populate, (faulty) transfer, clean retry."""

    def __init__(self, sc, ctx, m, idx):
        self.sc, self.ctx, self.m = sc, ctx, m
        cfg = sc["cfg"]
        self.cfg = cfg
        import os

        sub = os.path.join(ctx.root, f"w{idx}")
        ctx.seam.reset(sub, random.Random(f"{ctx.seed}/order/{idx}"))
        self.w = World(ctx, sub)
        self.src = self.w.odb("src", cfg["src_kind"])
        dk = cfg["dest_kind"]
        self.dname = "rs" if dk == "remote" else "dest"
        dconf = {}
        if cfg.get("dest_state") and dk != "remote":
            self.dstate = self.w.state("tmp", root_dir=sub)
            dconf["state"] = self.dstate
        else:
            self.dstate = None
        if cfg.get("via_push") and cfg["use_index"]:
            self.w.mkdirs(self.w.p("tmp"))
            dconf["tmp_dir"] = self.w.p("tmp")  # get_index(): ObjectDBIndex, else the no-op index
        self.dest = self.w.odb(self.dname, dk, verify=cfg.get("verify", False), **dconf)
        if dk == "remote":
            self.w.remote_fs(self.dname).non_atomic = bool(cfg.get("non_atomic"))
        for lab in sc["src"]:
            oid = m.oid[lab]
            data = m.bytes[oid]
            if lab in sc.get("corrupt", {}):
                data = _corrupt(data, sc["corrupt"][lab])
            self.w.raw_add("src", cfg["src_kind"], oid, data, mode=0o644 if cfg.get("unprotected") else 0o444)
        for lab in sc["dest"]:
            oid = m.oid[lab]
            self.w.raw_add(self.dname, dk, oid, m.bytes[oid],
                           mode=0o644 if (cfg.get("unprotected") or cfg.get("dest_unprotected")) else 0o444)
        self.index = None
        if cfg["use_index"] and not cfg.get("via_push"):
            from dvc_data.hashfile.db.index import ObjectDBIndex

            self.w.mkdirs(self.w.p("tmp"))
            self.index = ObjectDBIndex(self.w.p("tmp"), "destidx")
            for lab in sc.get("indexed", []):
                # an earlier, fully successful push of this tree (transfer.py:127-138)
                d = m.oid[lab]
                self.index.update([d], list(m.children[d]))
        if cfg.get("via_push") and cfg["use_index"] and sc.get("indexed"):
            # the earlier, fully successful push that left the persisted index behind: everything it covers is
            # put into the destination, pushed (which indexes it), and what has "since vanished" is taken out again
            closure = set()
            for lab in sc["indexed"]:
                d = m.oid[lab]
                closure.add(d)
                closure.update(m.children[d])
            for o in sorted(closure):
                self.w.raw_add(self.dname, dk, o, m.bytes[o])
                self.w.raw_add("src", cfg["src_kind"], o, m.bytes[o])
            keep_src = {m.oid[lab] for lab in sc["src"]}
            keep_dest = {m.oid[lab] for lab in sc["dest"]}
            self.push(sorted(closure))
            for o in sorted(closure):
                if o not in keep_dest:
                    self.w.raw_rm(self.dname, dk, o)
                if o not in keep_src:
                    self.w.raw_rm("src", cfg["src_kind"], o)
            ctx.probe("persisted_index_from_an_earlier_push")
        self.placed = []
        self.prefix = f"<rs>/rs/" if dk == "remote" else "dest/"

    def listing_src(self):
        return self.w.listing("src", self.cfg["src_kind"])[0]

    def listing_dest(self):
        return self.w.listing(self.dname, self.cfg["dest_kind"])[0]

    def push(self, request_oids):
        """The same closed request sent the way `dvc push` sends it: index ->
        collect(push=True) -> push (remote index from get_index, cache_odb = remote)."""
        from dvc_data.hashfile.meta import Meta
        from dvc_data.index import DataIndex, DataIndexEntry, ObjectStorage
        from dvc_data.index.collect import collect
        from dvc_data.index.push import push

        m = self.m
        idx = DataIndex()
        req = list(request_oids)
        covered = set()
        n = 0
        for o in req:
            if o in m.children:
                idx[(f"out{n}",)] = DataIndexEntry(key=(f"out{n}",), meta=Meta(isdir=True), hash_info=_hi(o))
                covered.update(m.children[o])
                n += 1
        for o in req:
            if o not in m.children and o not in covered:
                idx[(f"out{n}",)] = DataIndexEntry(key=(f"out{n}",), meta=Meta(), hash_info=_hi(o))
                n += 1
        idx.storage_map.add_cache(ObjectStorage((), self.src))
        idx.storage_map.add_remote(ObjectStorage((), self.dest))
        idxs = collect([idx], "remote", push=True)
        return push(idxs, jobs=self.cfg["jobs"])

    def transfer(self, request_oids):
        from dvc_data.hashfile.transfer import transfer

        cfg = self.cfg
        if cfg.get("via_push"):
            return self.push(request_oids)
        cache_odb = {"src": self.src, "dest": self.dest, None: None}[cfg["cache_odb"]]
        req = [_hi(o) for o in request_oids]
        return transfer(
            self.src,
            self.dest,
            iter(req) if cfg.get("req_as_iter") else req,
            jobs=cfg["jobs"],
            verify=cfg.get("verify", False),
            hardlink=cfg["hardlink"],
            dest_index=self.index,
            cache_odb=cache_odb,
            shallow=cfg["shallow"],
        )

    def close(self):
        if self.index is not None:
            self.index.close()
        if self.dstate is not None:
            self.dstate.close()


def _oid_from_rel(prefix, rel):
    if rel is None or not rel.startswith(prefix):
        return None
    parts = rel[len(prefix) :].split("/")
    if len(parts) == 2 and len(parts[0]) == 2 and not model.is_tmp_name(parts[1]):
        return parts[0] + parts[1]
    return None


# ------------------------------------------------------------------- execute
def execute(sc, ctx):
    from simkit.harness import HarnessError

    if not valid(sc):
        raise HarnessError("scenario violates the engine's preconditions")
    _set_knobs(sc["cfg"])
    if sc["prop"] == "C12":
        return _exec_c12(sc, ctx)
    m = M(sc)
    req = [m.oid[lab] for lab in sc["request"]]
    shallow = sc["cfg"]["shallow"]
    req_star = set(req) if shallow else m.expand(req)
    src0 = {m.oid[lab] for lab in sc["src"]}
    dest0 = {m.oid[lab] for lab in sc["dest"]}
    new = {o for o in req_star if o in src0 and o not in dest0}
    new_labels = sorted({lab for lab in sc["src"] if m.oid[lab] in new})
    # one label per oid (identical trees share an oid)
    seen, uniq = set(), []
    for lab in new_labels:
        if m.oid[lab] not in seen:
            seen.add(m.oid[lab])
            uniq.append(lab)
    subsets = _subsets(sc, uniq)
    ctx.stats["subruns"] = 0
    nontrivial = set()
    for idx, fail in enumerate(subsets):
        ctx.stats["subruns"] += 1
        before = len(ctx.violations)
        nt = _one(sc, ctx, m, idx, fail, req, req_star, src0, dest0, new)
        if nt:
            nontrivial.add(tuple(fail))
        if len(ctx.violations) > before and "narrow" not in ctx.extra:
            ctx.extra["narrow"] = {"subsets": {"mode": "only", "sets": [fail]}}
    ctx.extra["nontrivial_subruns"] = len(nontrivial)
    ctx.extra["subruns"] = len(subsets)
    ctx.nontrivial = bool(nontrivial)


def _one(sc, ctx, m, idx, fail, req, req_star, src0, dest0, new):
    prop = sc["prop"]
    run = Run(sc, ctx, m, idx)
    seam = ctx.seam
    cfg = sc["cfg"]
    fail_oids = {m.oid[lab] for lab in fail}
    gone_oids = {m.oid[lab] for lab in sc.get("src_missing", [])}
    S0 = run.listing_src()
    D0 = run.listing_dest()
    multi_listed = {}
    for doid in {o for o in req_star if o in m.children}:
        for c in m.children[doid]:
            multi_listed.setdefault(c, set()).add(doid)

    def mon(kind, r1, r2):
        oid = _oid_from_rel(run.prefix, r2 or r1)
        if oid is None:
            return
        if kind in ("rename", "link", "copy_done", "r_put"):
            run.placed.append(oid)
        if prop == "C04" and kind in (
            "rename", "link", "copy_done", "r_put", "unlink", "os_open_w", "r_rm", "chmod"
        ):  # fmt: skip
            for d, child in model.closure_violations(run.listing_dest()):
                shared = len(multi_listed.get(child, ())) >= 2 and child in fail_oids
                ctx.violate(
                    "closure-during",
                    "shared-file-failed" if shared else (
                        "child-missing-both-sides" if child in gone_oids else "other"),
                    f"dir {m.lab(d)} present at dest without child {m.lab(child)} "
                    f"after {kind} {r2 or r1}; failing uploads={fail}",
                )

    seam.monitors.append(mon)
    seam.faults = _fault_rules(sc, m, fail, run.w)
    fired0 = sum(seam.fired.values())
    res = None
    try:
        res = run.transfer(req)
    except Exception as exc:  # noqa: BLE001
        ctx.violate("transfer-raised", type(exc).__name__, f"{exc!r}; failing={fail}")
    fired = sum(seam.fired.values()) - fired0
    seam.faults = []
    D1 = run.listing_dest()
    S1 = run.listing_src()
    nontrivial = False
    if res is not None and cfg.get("via_push"):
        # push() only returns counts: the closure clause is checked, the
        # "reported as failed" clause is not observable through this API
        _oracle_c04_after(ctx, m, req_star, D1, None, None, fail, sc.get("src_missing", []))
        big = any(len(m.children.get(o, ())) >= 2 for o in new)
        nontrivial = bool(big and fired)
        ctx.probe("via_index_push")
    elif res is not None:
        T = {h.value for h in res.transferred}
        F = {h.value for h in res.failed}
        if prop == "C04":
            _oracle_c04_after(ctx, m, req_star, D1, T, F, fail, sc.get("src_missing", []))
            big = any(len(m.children.get(o, ())) >= 2 for o in new)
            nontrivial = bool(big and fired)
        else:
            _oracle_c11(ctx, sc, m, req_star, S0, S1, D0, D1, T, F, run.placed, fail)
            nontrivial = bool(new) and bool(
                fired
                or any(o not in S0 and o not in D0 for o in req_star)
                or any(o in D0 for o in req_star)
                or (cfg.get("verify") and sc.get("corrupt"))
            )
    if prop == "C11" and cfg.get("second_round") and res is not None and not cfg.get("via_push"):
        er = random.Random(cfg.get("ext_seed", 0))
        absent = sorted(o for o in req_star if o not in D1 and o in m.bytes)
        have = set(D1)
        # the other client follows the same protocol: files first, a directory object only once all
        # the files it lists are there
        for o in [x for x in absent if x not in m.children] + [x for x in absent if x in m.children]:
            if er.random() < 0.5 and all(c in have for c in m.children.get(o, ())):
                run.w.raw_add(run.dname, cfg["dest_kind"], o, m.bytes[o])
                have.add(o)
                ctx.probe("object_delivered_by_another_client_between_rounds")
        D1x = run.listing_dest()
        n_placed = len(run.placed)
        try:
            res2 = run.transfer(req)
        except Exception as exc:  # noqa: BLE001
            ctx.violate("transfer-raised", "second-round:" + type(exc).__name__, repr(exc))
            res2 = None
        if res2 is not None:
            _oracle_c11(ctx, sc, m, req_star, S1, run.listing_src(), D1x, run.listing_dest(),
                        {h.value for h in res2.transferred}, {h.value for h in res2.failed}, run.placed[n_placed:], ["(second round)"])
    # (iii) clean retry with the same arguments completes the destination
    if prop == "C04":
        for lab in list(sc.get("src_missing", [])) + [l for l in fail if sc["fault_kinds"][l]["stage"] == "src_gone"]:
            run.w.raw_add("src", cfg["src_kind"], m.oid[lab], m.bytes[m.oid[lab]])
        try:
            run.transfer(req)
        except Exception as exc:  # noqa: BLE001
            ctx.violate("retry-raised", type(exc).__name__, repr(exc))
        D2 = run.listing_dest()
        for o in sorted(req_star):
            if o not in D2:
                shared = len(multi_listed.get(o, ())) >= 2 and o in fail_oids
                ctx.violate(
                    "retry-incomplete",
                    "shared-file-failed" if shared else "other",
                    f"{m.lab(o)} still absent after clean retry; first round failing={fail}",
                )
            elif D2[o] != m.bytes[o]:
                ctx.violate("retry-wrong-bytes", "any", m.lab(o))
        for d, child in model.closure_violations(D2):
            ctx.violate("closure-after-retry", "any", f"{m.lab(d)} lacks {m.lab(child)}")
    run.close()
    return nontrivial


def _oracle_c04_after(ctx, m, req_star, D1, T, F, fail, src_missing=()):
    gone = {m.oid[l] for l in src_missing}
    for d in sorted(o for o in req_star if o in m.children):
        missing = [c for c in m.children[d] if c not in D1]
        if not missing:
            continue
        if d in D1 and model.check_object(d, D1[d]) is None:
            ctx.violate(
                "closure-after",
                "child-missing-both-sides" if set(missing) & gone else "dir-present-child-absent",
                f"{m.lab(d)} present, children absent: {[m.lab(c) for c in missing]}; failing={fail}",
            )
        if F is not None and d not in F and d not in D1:
            ctx.violate(
                "withheld-not-failed",
                "child-missing-both-sides" if set(missing) & gone else "upload-failure",
                f"{m.lab(d)} withheld but not in failed (T has it: {d in T}); failing={fail}",
            )


def _oracle_c11(ctx, sc, m, req_star, S0, S1, D0, D1, T, F, placed, fail):
    corrupt = {m.oid[lab] for lab in sc.get("corrupt", {})}
    verify = sc["cfg"].get("verify")
    if T & F:
        ctx.violate("partition", "overlap", [m.lab(o) for o in T & F])
    expected_new = {o for o in req_star if o in S0 and o not in D0}
    if T | F != expected_new:
        extra = (T | F) - expected_new
        lack = expected_new - (T | F)
        ctx.violate(
            "partition",
            "new-set-mismatch",
            f"extra={[m.lab(o) for o in extra]} lacking={[m.lab(o) for o in lack]} failing={fail}",
        )
    for o in sorted(T):
        if o not in D1:
            if o in m.children and any(c not in S0 and c not in D0 for c in m.children[o]):
                disc = "dir-with-child-missing-both"
            elif o in corrupt and verify:
                disc = "corrupt-source-verify"
            else:
                disc = "other"
            ctx.violate(
                "transferred-but-absent", disc, f"{m.lab(o)} reported transferred; failing={fail}"
            )
        elif model.check_object(o, D1[o]) is not None:
            disc = "corrupt-source" if o in corrupt else "other"
            ctx.violate("transferred-wrong-bytes", disc, f"{m.lab(o)} failing={fail}")
    for o in sorted(req_star):
        if o not in D1 and o not in F and not (o not in S0 and o not in D0):
            if o in T:
                continue  # already reported above
            ctx.violate("absent-unreported", "other", f"{m.lab(o)} failing={fail}")
    for o in sorted(D0):
        if o in req_star:
            if o in placed:
                ctx.violate("present-resent", "any", m.lab(o))
            if o in T or o in F:
                ctx.violate("present-reported", "any", m.lab(o))
    for o in sorted(F):
        # whatever a failed upload left under the object's name must not be a mismatching object
        # (a retry would take it for delivered)
        if o in D1 and o not in D0 and model.check_object(o, D1[o]) is not None:
            ctx.violate("failed-left-mismatching-object", "any", f"{m.lab(o)} ({len(D1[o])} bytes) failing={fail}")
    if S1 != S0:
        changed = sorted(set(S0) ^ set(S1)) + [o for o in S0 if o in S1 and S0[o] != S1[o]]
        ctx.violate("source-modified", "any", [m.lab(o) for o in changed])
    # probes
    if any(o in T for o in corrupt):
        ctx.probe("corrupt_source_in_transferred")
    if any(o not in S0 and o not in D0 for o in req_star):
        ctx.probe("missing_both")


# ------------------------------------------------------------------------ C12
def _gen_c12(rng):
    pool = gen.content_pool(rng, n=rng.randint(3, 7), zero=rng.choice([0, 0, 2, 5]))
    trees = _gen_trees(rng, len(pool))
    cfg = _gen_cfg(rng, "C12")
    cfg["use_index"] = rng.random() < 0.6
    cfg["hardlink"] = False
    cfg["shallow"] = True
    cfg["cache_odb"] = rng.choice([None, "src"]) if not cfg["use_index"] else rng.choice(
        [None, "src", "dest"]
    )
    cfg["traverse_prefix_len"] = rng.choice([2, 3])
    tlabels = [f"T{i}" for i in range(len(trees))]
    children = {t: sorted({f"c{ci}" for ci in trees[int(t[1:])].values()}) for t in tlabels}
    all_labels = tlabels + [f"c{i}" for i in range(len(pool))]
    src = set(all_labels)
    dest = set()
    sc = {"prop": "C12", "cfg": cfg, "contents": [gen.enc(b) for b in pool], "trees": trees}
    ops = []
    if not cfg["use_index"]:
        # index-free exactness: arbitrary store contents, arbitrary queries
        src = {l for l in all_labels if rng.random() < 0.6}
        dest = {l for l in all_labels if rng.random() < 0.45}
        fillers = rng.randint(0, 12)
        sc["fillers"] = fillers
        # objects of local-class stores lack the read-only mark (placed, not yet protected): every
        # existence query re-hashes them
        cfg["unprotected"] = rng.random() < 0.5
        for _ in range(rng.randint(2, 6)):
            q = [l for l in all_labels if rng.random() < 0.6]
            if len(q) < 2:
                q = list(all_labels[:2]) if len(all_labels) >= 2 else list(all_labels)
            shallow = rng.random() < 0.6
            if rng.random() < 0.5:
                ops.append({"op": "status", "on": rng.choice(["src", "dest"]), "ids": q, "shallow": shallow})
                if rng.random() < 0.3:
                    ops[-1]["read_fault"] = {"nth": rng.randint(1, 3), "exc": rng.choice(["EIO", "EACCES"])}
            else:
                ops.append({"op": "compare", "ids": q, "shallow": shallow,
                            "check_deleted": rng.random() < 0.7})
    else:
        sc["fillers"] = 0
        for t in tlabels:
            if rng.random() < 0.2:
                dest.add(t)
                dest.update(children[t])
        for _ in range(rng.randint(3, 10)):
            kind = gen.weighted(
                rng, [(4, "transfer"), (3, "status"), (2, "compare"), (3, "ext_delete")]
            )
            ts = [t for t in tlabels if rng.random() < 0.7] or [tlabels[0]]
            closed = sorted(set(ts) | {c for t in ts for c in children[t]})
            if kind == "transfer":
                fails = []
                if rng.random() < 0.5:
                    cand = closed
                    fails = rng.sample(cand, rng.randint(1, min(2, len(cand))))
                ops.append({"op": "transfer", "ids": closed, "fail": fails})
            elif kind == "status":
                ops.append({"op": "status", "on": "dest", "ids": closed, "shallow": True})
                if rng.random() < 0.3:
                    ops[-1]["idx_fault"] = True  # the index cannot be written while this query runs
            elif kind == "compare":
                ops.append({"op": "compare", "ids": closed, "shallow": True, "check_deleted": True})
                if rng.random() < 0.3:
                    ops[-1]["idx_fault"] = True
            else:
                ops.append({"op": "ext_delete", "labels": rng.sample(closed, rng.randint(1, min(3, len(closed))))})
        if len(tlabels) >= 2 and rng.random() < 0.3:
            # round 7 motif: one directory is delivered and indexed, then it and all its files vanish from the
            # destination (collected by somebody else); the next request is about ANOTHER directory, which may
            # share files with the vanished one - the index must not vouch for them
            ta, tb = rng.sample(tlabels, 2)
            ca = sorted({ta} | set(children[ta]))
            cb = sorted({tb} | set(children[tb]))
            ops.append({"op": "transfer", "ids": ca, "fail": []})
            ops.append({"op": "ext_delete", "labels": ca})
            ops.append({"op": rng.choice(["status", "compare"]), "on": "dest", "ids": cb, "shallow": True, "check_deleted": True})
            ops.append({"op": "transfer", "ids": cb, "fail": []})
            ops.append({"op": "status", "on": "dest", "ids": cb, "shallow": True})
    sc.update(src=sorted(src), dest=sorted(dest), ops=ops, corrupt={})
    sc["fault_kinds"] = {lab: _fault_for(rng, cfg) for lab in all_labels}
    return sc


def _exec_c12(sc, ctx):
    from dvc_objects.fs.base import FileSystem

    from dvc_data.hashfile.status import compare_status, status

    cfg = sc["cfg"]
    m = M(sc)
    sc = dict(sc)
    run = Run(sc, ctx, m, 0)
    FileSystem.TRAVERSE_PREFIX_LEN = cfg.get("traverse_prefix_len", 2)
    seam = ctx.seam
    w = run.w
    # 00-prefixed fillers make the size estimate of the generic class non-trivial
    for i in range(sc.get("fillers", 0)):
        b = gen.ZERO_PREFIXED[i % len(gen.ZERO_PREFIXED)] + b"%d" % i
        import hashlib

        foid = "00" + hashlib.md5(b).hexdigest()[2:]  # noqa: S324  (name only matters)
        w.raw_add(run.dname, cfg["dest_kind"], foid, b"filler")
    delivered = set(run.listing_dest())
    use_index = cfg["use_index"]

    def mon(kind, r1, r2):
        oid = _oid_from_rel(run.prefix, r2 or r1)
        if oid is not None and kind in ("rename", "link", "copy_done", "r_put"):
            delivered.add(oid)

    seam.monitors.append(mon)
    cache_odb = {"src": run.src, "dest": run.dest, None: None}[cfg["cache_odb"]]

    def actual(kind, listing_fn):
        objs = listing_fn()
        return set(objs)

    def index_check(where):
        if run.index is None:
            return
        held = set(run.index.hashes())
        D = run.listing_dest()
        listed = set()
        for oid, data in D.items():
            if oid.endswith(".dir") and model.check_object(oid, data) is None:
                listed.update((model.parse_dir(data) or {}).values())
        for h in sorted(held):
            if h not in delivered and h not in listed:
                ctx.violate(
                    "index-invented", "never-delivered", f"{m.lab(h)} in index after {where}"
                )

    queried_with_entries = False
    mixed_query = False
    for n, op in enumerate(sc["ops"]):
        kind = op["op"]
        if kind == "ext_delete":
            for lab in op["labels"]:
                w.raw_rm(run.dname, cfg["dest_kind"], m.oid[lab])
            continue
        ids = [m.oid[lab] for lab in op.get("ids", [])]
        if kind == "transfer":
            seam.faults = _fault_rules(sc, m, op["fail"])
            try:
                run.transfer(ids)
            except Exception as exc:  # noqa: BLE001
                ctx.violate("transfer-raised", type(exc).__name__, repr(exc))
            seam.faults = []
            index_check(f"op{n}:transfer fail={op['fail']}")
            continue
        shallow = op["shallow"]
        if run.index is not None and len(list(run.index.hashes())):
            queried_with_entries = True
        if kind == "status":
            on = op["on"]
            odb = run.src if on == "src" else run.dest
            lst = run.listing_src if on == "src" else run.listing_dest
            present = set(lst())
            q = set(ids)
            if not shallow:
                # expansion needs the dir object in cache_odb (defaults to odb)
                ok = True
                loader = cache_odb if cache_odb is not None else odb
                lp = set(run.listing_src()) if loader is run.src else set(run.listing_dest())
                for o in ids:
                    if o in m.children and o not in lp:
                        ok = False
                if not ok:
                    continue
                q = m.expand(ids)
            rf = op.get("read_fault")
            fired0 = seam.fired.get("read_fault", 0) + seam.fired.get("idx_clear_fault", 0)
            if rf:
                seam.faults = [{"at": ("open_r",), "match": None, "nth": rf["nth"], "exc": rf["exc"], "name": "read_fault", "count": 1}]
            if op.get("idx_fault"):
                seam.faults = [{"at": ("idx_clear",), "match": None, "nth": 1, "exc": "SQLITE_FULL", "name": "idx_clear_fault", "count": 1}]
            try:
                r = status(
                    odb,
                    [_hi(o) for o in ids],
                    index=run.index if on == "dest" else None,
                    cache_odb=cache_odb,
                    shallow=shallow,
                    jobs=cfg["jobs"],
                )
            except Exception as exc:  # noqa: BLE001
                seam.faults = []
                if isinstance(exc, OSError) and seam.fired.get("read_fault", 0) > fired0:
                    # an object could not be read back: refusing to answer is fine, a wrong answer is not
                    ctx.probe("status_refused_after_read_error")
                    continue
                if seam.fired.get("idx_clear_fault", 0) + seam.fired.get("read_fault", 0) > fired0:
                    ctx.probe("status_refused_after_index_write_error")
                    continue
                ctx.violate("status-raised", type(exc).__name__, repr(exc))
                continue
            seam.faults = []
            E = {h.value for h in r.exists}
            Mi = {h.value for h in r.missing}
            if E & Mi or (E | Mi) != q:
                ctx.violate("status-partition", "any", f"E={len(E)} M={len(Mi)} q={len(q)}")
            if run.index is None or on == "src":
                if E != (q & present):
                    ctx.violate(
                        "status-inexact",
                        "no-index",
                        f"on={on} exists={[m.lab(o) for o in sorted(E)]} "
                        f"actual={[m.lab(o) for o in sorted(q & present)]}",
                    )
                if q & present and q - present:
                    mixed_query = True
            else:
                now = set(run.listing_dest())
                for o in sorted(E):
                    if o.endswith(".dir") and o not in now:
                        ctx.violate("dir-reported-existing-but-absent", "index", m.lab(o))
                index_check(f"op{n}:status")
        else:  # compare
            if not shallow:
                lp = set(run.listing_src())
                if cache_odb is run.dest:
                    lp = set(run.listing_dest())
                if any(o in m.children and o not in lp for o in ids):
                    continue
            fired0 = seam.fired.get("idx_clear_fault", 0)
            if op.get("idx_fault"):
                seam.faults = [{"at": ("idx_clear",), "match": None, "nth": 1, "exc": "SQLITE_FULL", "name": "idx_clear_fault", "count": 1}]
            try:
                r = compare_status(
                    run.src,
                    run.dest,
                    [_hi(o) for o in ids],
                    check_deleted=op["check_deleted"],
                    dest_index=run.index,
                    cache_odb=cache_odb,
                    shallow=shallow,
                    jobs=cfg["jobs"],
                )
            except Exception as exc:  # noqa: BLE001
                seam.faults = []
                if seam.fired.get("idx_clear_fault", 0) > fired0:
                    ctx.probe("status_refused_after_index_write_error")
                    continue
                ctx.violate("compare-raised", type(exc).__name__, repr(exc))
                continue
            seam.faults = []
            q = set(ids) if shallow else m.expand(ids)
            ok_, mis, new, dele = ({h.value for h in s} for s in r)
            if run.index is None:
                S = set(run.listing_src())
                D = set(run.listing_dest())
                exp_ok = {o for o in q if o in S and o in D}
                exp_new = {o for o in q if o in S and o not in D}
                exp_mis = {o for o in q if o not in S and o not in D}
                exp_del = {o for o in q if o not in S and o in D}
                if not op["check_deleted"] and not (q - D):
                    # documented shortcut: source not consulted when nothing is missing
                    exp_ok, exp_del = q & D, set()
                if (ok_, mis, new, dele) != (exp_ok, exp_mis, exp_new, exp_del):
                    ctx.violate(
                        "compare-inexact",
                        "no-index",
                        f"got ok={len(ok_)} mis={len(mis)} new={len(new)} del={len(dele)} "
                        f"want ok={len(exp_ok)} mis={len(exp_mis)} new={len(exp_new)} del={len(exp_del)}",
                    )
                if q & D and q - D:
                    mixed_query = True
            else:
                now = set(run.listing_dest())
                for o in sorted(ok_ | dele):
                    if o.endswith(".dir") and o not in now:
                        ctx.violate("dir-reported-existing-but-absent", "index-compare", m.lab(o))
                index_check(f"op{n}:compare")
    ctx.nontrivial = queried_with_entries or mixed_query
    if queried_with_entries:
        ctx.probe("query_with_index_entries")
    run.close()


# ------------------------------------------------------------------ minimise
def valid(sc):
    """Preconditions of the property's quantifier; the minimiser must not
    leave them."""
    trees = sc["trees"]
    ch = {f"T{i}": {f"c{ci}" for ci in t.values()} for i, t in enumerate(trees)}
    ncont = len(sc["contents"])
    labs = set(sc.get("request", [])) | set(sc.get("src", [])) | set(sc.get("dest", []))
    for op in sc.get("ops", []):
        labs |= set(op.get("ids", [])) | set(op.get("fail", [])) | set(op.get("labels", []))
    for lab in labs:
        if lab.startswith("T") and lab not in ch:
            return False
        if lab.startswith("c") and int(lab[1:]) >= ncont:
            return False
    dest = set(sc.get("dest", []))
    src = set(sc.get("src", []))

    def closed(ids):
        return all(ch[t] <= set(ids) for t in ids if t.startswith("T"))

    if sc["prop"] == "C04" or (sc["prop"] == "C12" and sc["cfg"]["use_index"]):
        if not closed(dest):
            return False
    if sc["prop"] == "C04":
        idx, van = set(sc.get("indexed", [])), set(sc.get("vanished", []))
        if (idx or van) and not sc["cfg"]["use_index"]:
            return False
        if not van <= idx or van & dest or not (idx - van) <= dest:
            return False
        for t in van:
            if any(M_same_oid(trees, t, b) for b in ch if b in dest):
                return False
        req = set(sc["request"])
        if sc["cfg"]["shallow"] and not closed(req):
            return False
        need = set(req)
        for t in req:
            if t.startswith("T"):
                need |= ch[t]
        gone = set(sc.get("src_missing", []))
        if gone & (src | dest) or any(g.startswith("T") for g in gone):
            return False
        if not need <= (src | gone):
            return False
        if not set(sc["subsets"].get("sets", [[]])[0]) <= need if sc["subsets"]["mode"] == "only" else False:
            return False
    if sc["prop"] == "C11":
        if sc["cfg"]["use_index"] and not closed(dest):
            return False
        idx, van = set(sc.get("indexed", [])), set(sc.get("vanished", []))
        if (idx or van) and not sc["cfg"]["use_index"]:
            return False
        if not van <= idx or van & dest or not (idx - van) <= dest:
            return False
        for t in van:  # a vanished tree must not survive under another label
            if any(M_same_oid(trees, t, b) for b in ch if b in dest):
                return False

        if not sc["cfg"]["shallow"]:
            if any(t.startswith("T") and t not in src for t in sc["request"]):
                return False
    if sc["prop"] == "C12" and sc["cfg"]["use_index"]:
        for op in sc.get("ops", []):
            if op["op"] in ("transfer", "status", "compare") and not closed(op["ids"]):
                return False
            if op["op"] == "transfer" and not set(op["ids"]) <= src:
                return False
    return True


def shrink_paths(sc):
    out = [("list", ("ops",)), ("list", ("request",)), ("list", ("dest",)), ("list", ("src",)),
           ("list", ("src_missing",)), ("list", ("indexed",)), ("list", ("vanished",))]
    if sc.get("subsets", {}).get("mode") == "only":
        out.append(("list", ("subsets", "sets", 0)))
    for i in range(len(sc.get("trees", []))):
        out.append(("dict", ("trees", i)))
    out.append(("dict", ("corrupt",)))
    for i, op in enumerate(sc.get("ops", [])):
        for k in ("ids", "fail", "labels"):
            if k in op:
                out.append(("list", ("ops", i, k)))
    return out


def simplify(sc):
    import copy

    simple = {
        "jobs": 1, "use_index": False, "reflink": "enotsup", "hardlink": False,
        "page_size": 1000, "tick_ns": 1_000_000, "cache_odb": None, "src_kind": "local",
        "traverse_prefix_len": 2, "dest_state": False, "via_push": False,
    }  # fmt: skip
    for k, v in simple.items():
        if k in sc["cfg"] and sc["cfg"][k] != v:
            c = copy.deepcopy(sc)
            c["cfg"][k] = v
            yield c
    if sc.get("fillers"):
        c = copy.deepcopy(sc)
        c["fillers"] = 0
        yield c
    used = {f"c{ci}" for t in sc["trees"] for ci in t.values()}
    used |= {l for l in sc.get("request", []) + sc.get("src", []) + sc.get("dest", [])}
    for i, cont in enumerate(sc["contents"]):
        want = gen.enc(b"c%d" % i)
        if cont != want:
            c = copy.deepcopy(sc)
            c["contents"][i] = want
            yield c
    fk = sc.get("fault_kinds", {})
    for lab in sorted(fk):
        if lab not in used and not lab.startswith("T"):
            c = copy.deepcopy(sc)
            del c["fault_kinds"][lab]
            yield c
