"""E4 `wshist` — C05 (unforced checkout never destroys unrecoverable data;
link clean-up only removes what it recorded, unused and unmodified) and C10
(forced checkout converges, is idempotent, honours link types, spares the
cache, saves a matching link record).  DESIGN §5 C05, C10.
"""

import hashlib
import json
import os
import stat

from simkit import gen, model
from simkit.harness import HarnessError, World
from simkit.seam import REAL

TIERS = {"C05": {"quick": 2400, "thorough": 20000}, "C10": {"quick": 2000, "thorough": 16000}}
LEVEL = {"C05": "exploration", "C10": "exploration"}
RULE = {
    "C05": "two scenario kinds. checkout: a cache holding several trees, a workspace path, a "
    "history of 4-14 user operations (add / replace / delete / file<->dir swap with cached "
    "or uncached content, evict a cache object) interleaved with UNFORCED checkouts (prompt "
    "absent or declining, relink on/off, link types, both store classes, with/without "
    "state); before each checkout the set U of files whose bytes the cache does not hold "
    "intact is computed from raw listings; afterwards (return or raise) every file of U must "
    "be byte-identical and, if U was non-empty under the path, the call must have refused. "
    "links: save_link / checkout-recorded links, user modify / replace / remove / re-create "
    "under an advancing simulated clock, get_unused_links(used) + remove_links; every path "
    "that disappears must be a recorded, unused, unmodified link. Non-trivial: a checkout "
    "issued while U was non-empty under the path, or a clean-up after a modification; "
    "distinct = scenario digest.",
    "C10": "scenario = prior tree materialised by a real checkout with link type L0, user "
    "additions / removals / atomic replacements (kind-preserving), then forced checkout of "
    "the target with configured link type L1, the same call again, then relink=True; both "
    "store classes, with/without state, duplicates and empty files. Oracle: workspace == "
    "target; second call returns None and the seam logs no workspace mutation; after relink "
    "every file is of type L1 (copy: nlink 1 not symlink; hardlink: inode of the cache "
    "object, empty files exempt; symlink: readlink == cache path); cache bytes identical "
    "before/after; saved link record == (inode, mtime token) recomputed from the "
    "workspace. Non-trivial: prior != target in an added, a removed and a modified file, or "
    "L0 != L1; distinct = scenario digest.",
}
ASSUMPTIONS = {
    "C05": ["a user modification happens at a strictly later simulated time than the record it invalidates"],
    "C10": ["user edits of link-type files are atomic replacements (an in-place edit of a hard/sym link writes into the cache by the user's own hand)"],
}


# ------------------------------------------------------------------ generate
def generate(prop, rng):
    pool = gen.content_pool(rng, n=rng.randint(4, 7))
    if b"" not in pool and rng.random() < 0.5:
        pool.append(b"")
    ntrees = rng.randint(2, 3)
    names = ["a", "b", "c", "d/a", "d/b", "d/e/a", "ü", "e/a", "e/b"]
    trees = []
    for _ in range(ntrees):
        k = rng.randint(1, 5)
        t = {}
        for n in rng.sample(names, k):
            if any(o.startswith(n + "/") or n.startswith(o + "/") for o in t):
                continue
            t[n] = rng.randrange(len(pool))
        trees.append(t or {"a": 0})
    cfg = {
        "store": rng.choice(["local", "local", "generic"]),
        "reflink": gen.weighted(rng, [(6, "enotsup"), (2, "nocow"), (2, "cow")]),
        "tick_ns": rng.choice([1000, 1_000_000, 1_000_000_000]),
        "with_state": rng.random() < 0.6,
    }
    sc = {"prop": prop, "cfg": cfg, "contents": [gen.enc(b) for b in pool], "trees": trees}
    links = ["copy", "hardlink", "symlink"] + (["reflink"] if cfg["reflink"] == "cow" else [])
    if prop == "C10":
        prior, target = rng.sample(range(ntrees), 2)
        if rng.random() < 0.15 and len(trees[prior]) > 1:
            # the target is a proper part of the prior tree: a checkout that only deletes
            keep = sorted(trees[prior])
            keep = [k for k in keep if rng.random() < 0.6] or keep[:1]
            if len(keep) == len(trees[prior]):
                keep = keep[:-1]
            trees[target] = {k: trees[prior][k] for k in keep}
        l0, l1 = rng.choice(links), rng.choice(links)
        edits = []
        for _ in range(rng.randint(0, 4)):
            kind = rng.choice(["add", "replace", "delete"])
            if kind == "add":
                # (the last two look exactly like the temporary file an interrupted copy leaves behind)
                n = rng.choice(["n1", "d/n2", "z/n3", ".Zq3xT7pLm9KcVb2NwRs8Ya.tmp", "d/.aB-_0123456789cdefghijk.tmp"])
                edits.append({"op": "add", "rel": n, "content": rng.randrange(len(pool))})
            else:
                if not trees[prior]:
                    continue
                edits.append({"op": kind, "rel": rng.choice(sorted(trees[prior])),
                              "content": rng.randrange(len(pool)), "uncached": rng.random() < 0.5})
        if trees[prior] and rng.random() < 0.25:
            # some prior files are symbolic links into ANOTHER copy of the cache (the store was moved)
            for rel in rng.sample(sorted(trees[prior]), rng.randint(1, min(2, len(trees[prior])))):
                edits.append({"op": "oldcache", "rel": rel})
        if rng.random() < 0.2:
            # a dangling symbolic link in the workspace (left by a symlink-type checkout whose object was
            # collected, or made by the user): at a fresh name or in place of a prior file
            edits.append({"op": "dangling", "rel": rng.choice(["dl", "d/dl"] + sorted(trees[prior]))})
        if rng.random() < 0.25:
            # two names with identical content in both trees, hard-linked to EACH OTHER by the user
            ci = rng.randrange(len(pool))
            for t in (trees[prior], trees[target]):
                for nm in ("hp1", "hp2"):
                    if not any(o.startswith(nm + "/") for o in t):
                        t[nm] = ci
            edits.append({"op": "linkpair", "a": "hp1", "b": "hp2"})
        cfg.update(l0=l0, l1=l1, with_state=rng.random() < 0.7, single_file=rng.random() < 0.15)
        if rng.random() < 0.12:
            # one workspace file cannot be removed while the forced checkout runs (immutable / busy)
            cfg["ws_rm_fault"] = {"nth": rng.randint(1, 3), "exc": rng.choice(["EACCES", "EIO"])}
        # round 7: between the idempotent second call and the relink, every cache object is replaced by a
        # bytes-identical file with a new inode (collected and fetched again by somebody else)
        cfg["recache"] = rng.random() < 0.35
        sc.update(prior=prior, target=target, edits=edits, kind="c10")
        return sc
    kind = gen.weighted(rng, [(5, "checkout"), (5, "links")])
    sc["kind"] = kind
    ops = []
    if kind == "checkout":
        for _ in range(rng.randint(4, 14)):
            o = gen.weighted(rng, [(4, "user_write"), (2, "user_delete"), (1, "user_swap"), (1, "evict"), (5, "checkout")])
            if o == "user_write":
                ops.append({"op": o, "rel": rng.choice(names + ["n1", "d/n2"]), "content": rng.randrange(len(pool)),
                            "uncached": rng.random() < 0.6, "tag": rng.randrange(1000),
                            "leftover": rng.choice([None, None, "empty", "half"])})
            elif o == "user_delete":
                ops.append({"op": o, "rel": rng.choice(names)})
            elif o == "user_swap":
                ops.append({"op": o, "rel": rng.choice(["a", "d", "e", "d/e"]), "tag": rng.randrange(1000)})
            elif o == "evict":
                ops.append({"op": o, "content": rng.randrange(len(pool))})
            else:
                ops.append({"op": o, "tree": rng.randrange(ntrees), "relink": rng.random() < 0.3,
                            "prompt": rng.choice([None, "decline"]), "link": rng.choice(links),
                            "force": rng.random() < 0.15, "as_file": rng.random() < 0.2,
                            # "no target": the path is no longer wanted at all and is to be removed
                            "no_target": rng.random() < 0.15,
                            # a workspace file cannot be opened for reading while the workspace is looked at
                            "read_fault": ({"nth": rng.randint(1, 4), "exc": "EACCES"} if rng.random() < 0.15 else None),
                            # round 7: the user replaces one of the files this very checkout has written, after
                            # the last file is in place and before the checkout records what it has written
                            "mid_edit": ({"pick": rng.randrange(8), "tag": rng.randrange(1000)} if rng.random() < 0.3 else None)})
    else:
        for _ in range(rng.randint(4, 12)):
            o = gen.weighted(rng, [(3, "materialise"), (3, "save_link"), (4, "user_write"), (2, "user_delete"),
                                   (1, "checkout_rec"), (4, "cleanup")])
            slot = rng.choice(["p0", "p1", "p2"])
            if o == "materialise":
                ops.append({"op": o, "slot": slot, "tree": rng.randrange(ntrees), "as_file": rng.random() < 0.3})
            elif o == "save_link":
                ops.append({"op": o, "slot": slot})
            elif o == "user_write":
                ops.append({"op": o, "slot": slot, "rel": rng.choice(names), "tag": rng.randrange(1000),
                            "how": rng.choice(["inplace", "replace", "new", "inplace_older"]),
                            "existing": rng.random() < 0.6, "pick": rng.random()})
            elif o == "user_delete":
                ops.append({"op": o, "slot": slot, "rel": rng.choice(names + [""])})
            elif o == "checkout_rec":
                ops.append({"op": o, "slot": slot, "tree": rng.randrange(ntrees), "link": rng.choice(links),
                            "as_file": rng.random() < 0.4, "force": rng.random() < 0.6})
            else:
                ops.append({"op": o, "used": [s for s in ("p0", "p1", "p2") if rng.random() < 0.4]})
        if rng.random() < 0.4:
            # a focused motif at the end: record a link, touch it (or not) in some way, clean up
            slot = rng.choice(["p0", "p1", "p2"])
            m_as_file = rng.random() < 0.5
            ops.append({"op": "materialise", "slot": slot, "tree": rng.randrange(ntrees), "as_file": m_as_file})
            if rng.random() < 0.5:
                ops.append({"op": "save_link", "slot": slot})
            else:
                ops.append({"op": "checkout_rec", "slot": slot, "tree": rng.randrange(ntrees), "link": rng.choice(links),
                            "as_file": rng.random() < 0.5, "force": rng.random() < 0.6})
            if rng.random() < 0.75:
                ops.append({"op": "user_write", "slot": slot, "rel": rng.choice(names), "tag": rng.randrange(1000),
                            "how": rng.choice(["inplace", "replace", "inplace_older", "inplace_older"]),
                            "existing": True, "pick": rng.random()})
                if rng.random() < 0.4:
                    # ... and an unforced checkout over the edited path, which has to be refused
                    ops.append({"op": "checkout_rec", "slot": slot, "tree": rng.randrange(ntrees), "link": rng.choice(links),
                                "as_file": m_as_file, "force": False})
            ops.append({"op": "cleanup", "used": [s for s in ("p0", "p1", "p2") if s != slot and rng.random() < 0.4]})
    sc["ops"] = ops
    return sc


def valid(sc):
    n = len(sc["contents"])
    for t in sc["trees"]:
        if not t or any(ci >= n for ci in t.values()):
            return False
        ks = sorted(t)
        if any(b.startswith(a + "/") for a in ks for b in ks if a != b):
            return False
    nt = len(sc["trees"])
    if sc.get("kind") == "c10":
        return sc["prior"] < nt and sc["target"] < nt and sc["prior"] != sc["target"] and all(
            e.get("content", 0) < n for e in sc["edits"])
    for op in sc.get("ops", []):
        if op.get("tree", 0) >= nt or op.get("content", 0) >= n:
            return False
    return True


def shrink_paths(sc):
    out = [("list", ("ops",)), ("list", ("edits",))]
    for i in range(len(sc["trees"])):
        out.append(("dict", ("trees", i)))
    return out


def simplify(sc):
    import copy

    simple = {"reflink": "enotsup", "tick_ns": 1_000_000, "with_state": False, "store": "local", "single_file": False}
    for k, v in simple.items():
        if k in sc["cfg"] and sc["cfg"][k] != v:
            c = copy.deepcopy(sc)
            c["cfg"][k] = v
            yield c
    for i, cont in enumerate(sc["contents"]):
        b = gen.dec(cont)
        want = gen.enc(b"c%d" % i)
        if cont != want and b != b"":
            c = copy.deepcopy(sc)
            c["contents"][i] = want
            yield c


# -------------------------------------------------------------------- common
class Env:
    def __init__(self, sc, ctx):
        self.sc, self.ctx = sc, ctx
        cfg = sc["cfg"]
        self.w = World(ctx)
        self.contents = [gen.dec(c) for c in sc["contents"]]
        self.foid = [model.ref_digest("md5", b) for b in self.contents]
        self.wsroot = self.w.p("ws")
        self.w.mkdirs(self.wsroot)
        self.state = self.w.state("tmp", root_dir=self.wsroot) if cfg["with_state"] else None
        conf = {"tmp_dir": self.w.p("tmp")}
        if self.state is not None:
            conf["state"] = self.state
        self.odb = self.w.odb("cache", cfg["store"], **conf)
        self.kind = cfg["store"]
        self.dirs = []
        for t in sc["trees"]:
            ents = {rel: self.foid[ci] for rel, ci in t.items()}
            doid, dbytes = model.ref_dir(ents)
            self.dirs.append(doid)
            self.w.raw_add("cache", self.kind, doid, dbytes)
            for ci in t.values():
                self.w.raw_add("cache", self.kind, self.foid[ci], self.contents[ci])

    def cache_objs(self):
        return self.w.listing("cache", self.kind)[0]

    def intact(self):
        return {o for o, d in self.cache_objs().items() if model.check_object(o, d) is None}

    def tree_obj(self, ti):
        from dvc_data.hashfile.hash_info import HashInfo
        from dvc_data.hashfile.tree import Tree

        return Tree.load(self.odb, HashInfo("md5", self.dirs[ti]))

    def file_obj(self, ci):
        return self.odb.get(self.foid[ci])

    def user_write(self, path, data):
        """Atomic replacement by the user at a later simulated time."""
        self.ctx.clock.advance(2 * 10**9)
        d = os.path.dirname(path)
        if os.path.lexists(path) and (os.path.isdir(path) and not os.path.islink(path)):
            REAL["shutil.rmtree"](path)
        elif os.path.lexists(path):
            REAL["os.unlink"](path)
        # a parent that is a file gets replaced by a directory
        p = d
        while p.startswith(self.wsroot) and p != self.wsroot:
            if os.path.lexists(p) and not os.path.isdir(p):
                REAL["os.unlink"](p)
            p = os.path.dirname(p)
        self.w.raw_write(path, data)

    def user_delete(self, path):
        self.ctx.clock.advance(2 * 10**9)
        if os.path.islink(path) or os.path.isfile(path):
            REAL["os.unlink"](path)
        elif os.path.isdir(path):
            REAL["shutil.rmtree"](path)

    def close(self):
        if self.state is not None:
            self.state.close()


def execute(sc, ctx):
    if not valid(sc):
        raise HarnessError("scenario violates the engine's preconditions")
    env = Env(sc, ctx)
    try:
        if sc["kind"] == "c10":
            _exec_c10(sc, ctx, env)
        elif sc["kind"] == "checkout":
            _exec_c05_checkout(sc, ctx, env)
        else:
            _exec_c05_links(sc, ctx, env)
    finally:
        env.close()


# -------------------------------------------------------------- C05 checkout
def _exec_c05_checkout(sc, ctx, env):
    from dvc_data.hashfile.checkout import PromptError, checkout

    path = os.path.join(env.wsroot, "out")
    nt = False
    for n, op in enumerate(sc["ops"]):
        o = op["op"]
        if o == "user_write":
            data = env.contents[op["content"]]
            if op["uncached"]:
                data = b"user-%d-" % op["tag"] + data
                if op.get("leftover"):
                    # an interrupted add of these very bytes left an unprotected, truncated file
                    # under their id: the content is NOT recoverable from the cache
                    env.w.raw_add("cache", env.kind, model.ref_digest("md5", data),
                                  b"" if op["leftover"] == "empty" else data[: len(data) // 2], mode=0o644)
                    ctx.probe("truncated_leftover_at_id_of_user_bytes")
            env.user_write(os.path.join(path, op["rel"]), data)
        elif o == "user_delete":
            env.user_delete(os.path.join(path, op["rel"]))
        elif o == "user_swap":
            p = os.path.join(path, op["rel"])
            if os.path.isdir(p) and not os.path.islink(p):
                env.user_write(p, b"swapped-to-file-%d" % op["tag"])
            else:
                env.user_delete(p)
                env.user_write(os.path.join(p, "inner"), b"swapped-to-dir-%d" % op["tag"])
        elif o == "evict":
            env.w.raw_rm("cache", env.kind, env.foid[op["content"]])
        else:
            before = model.snapshot(path)
            intact = env.intact()
            files0 = model.files_of(before)
            U = {r: b for r, b in files0.items() if b is not None and model.ref_digest("md5", b) not in intact}
            # dangling symlinks hold no bytes of their own
            env.odb.cache_types = [op["link"]]
            ctx.clock.advance(10**9)
            raised = None
            tci = sorted(sc["trees"][op["tree"]].values())[0]
            try:
                target_obj = env.file_obj(tci) if op.get("as_file") else env.tree_obj(op["tree"])
            except Exception:  # noqa: BLE001  (evicted .dir object: nothing to check out)
                continue
            if op.get("no_target"):
                target_obj = None
                ctx.probe("checkout_without_target")
            if op.get("read_fault") and not op["force"]:
                ctx.seam.faults = [{"at": ("open_r",), "match": "ws/", "sub": True, "nth": op["read_fault"]["nth"],
                                    "exc": op["read_fault"]["exc"], "name": "ws_read", "count": 1, "sticky": True}]
            if op.get("mid_edit") and env.state is not None:
                real_save_many = env.state.save_many

                import dvc_data.hashfile.checkout as _co

                real_inner = _co._checkout
                writing = []

                def inner_hook(*a, _real=real_inner, **kw):
                    # (the state is also written while the workspace is being looked at, before anything is
                    # changed: only the call made by the writing phase is the instant meant here)
                    writing.append(1)
                    try:
                        return _real(*a, **kw)
                    finally:
                        writing.pop()

                _co._checkout = inner_hook

                def save_many_hook(items, fs_, _me=op["mid_edit"], _real=real_save_many):
                    items = list(items)
                    if not writing:
                        return _real(items, fs_)
                    mine = sorted(it[0] for it in items if os.path.isfile(it[0]) or os.path.islink(it[0]))
                    if mine:
                        # a second actor: atomic replacement at a later simulated time by bytes no cache holds
                        env.user_write(mine[_me["pick"] % len(mine)], b"mid-edit-%d" % _me["tag"])
                        ctx.probe("file_replaced_between_writing_and_recording")
                    return _real(items, fs_)

                env.state.save_many = save_many_hook
            try:
                checkout(
                    path, env.w.localfs, target_obj, env.odb, force=op["force"], relink=op["relink"],
                    state=env.state, prompt=(lambda msg: False) if op["prompt"] == "decline" else None,
                )
            except Exception as exc:  # noqa: BLE001
                raised = exc
            finally:
                ctx.seam.faults = []
                if op.get("mid_edit") and env.state is not None:
                    del env.state.save_many
                    _co._checkout = real_inner
            if op["force"]:
                continue
            after = model.files_of(model.snapshot(path))
            lost = sorted(r for r, b in U.items() if after.get(r) != b)
            if lost:
                ctx.violate(
                    "unrecoverable-data-destroyed",
                    f"relink={op['relink']}:{'raised-' + type(raised).__name__ if raised else 'returned'}",
                    f"op{n} {op}: lost {lost} (bytes not in cache); raised={raised!r}",
                )
            tgt = {rel: env.contents[ci] for rel, ci in sc["trees"][op["tree"]].items()}
            if op.get("as_file"):
                tgt = {"": env.contents[tci]}
            if op.get("no_target"):
                tgt = {}
            in_way = sorted(r for r, b in U.items() if tgt.get(r) != b)
            if not lost and in_way and raised is None:
                ctx.violate("unforced-checkout-did-not-refuse", f"relink={op['relink']}",
                            f"op{n} {op}: returned normally although {in_way} differ from the target and are "
                            "not recoverable from the cache")
            if U:
                nt = True
                ctx.probe("checkout_with_unrecoverable_files")
            if isinstance(raised, PromptError):
                ctx.probe("prompt_error")
    ctx.nontrivial = nt


# ----------------------------------------------------------------- C05 links
def _exec_c05_links(sc, ctx, env):
    from dvc_data.hashfile.checkout import checkout
    from dvc_data.hashfile.state import State

    if env.state is None:
        env.state = env.w.state("tmp", root_dir=env.wsroot)
    st = env.state
    assert isinstance(st, State)
    recorded = {}  # slot -> True if unmodified since recording
    nt = False
    modified_since = False

    def slot_path(s):
        return os.path.join(env.wsroot, s)

    for n, op in enumerate(sc["ops"]):
        o = op["op"]
        if o == "materialise":
            p = slot_path(op["slot"])
            env.user_delete(p)
            t = sc["trees"][op["tree"]]
            if op["as_file"]:
                env.user_write(p, env.contents[sorted(t.values())[0]])
            else:
                for rel, ci in t.items():
                    env.user_write(os.path.join(p, rel), env.contents[ci])
        elif o == "save_link":
            p = slot_path(op["slot"])
            if os.path.lexists(p):
                ctx.clock.advance(10**9)
                st.save_link(p, env.w.localfs)
                recorded[op["slot"]] = model.files_of(model.snapshot(p))
        elif o == "checkout_rec":
            p = slot_path(op["slot"])
            ctx.clock.advance(10**9)
            before_co = model.snapshot(p)
            try:
                env.odb.cache_types = [op.get("link", "copy")]
                tobj = env.file_obj(sorted(sc["trees"][op["tree"]].values())[0]) if op.get("as_file") else env.tree_obj(op["tree"])
                checkout(p, env.w.localfs, tobj, env.odb, force=op.get("force", True), state=st)
                recorded[op["slot"]] = model.files_of(model.snapshot(p))
            except Exception as exc:  # noqa: BLE001
                from dvc_data.hashfile.checkout import PromptError

                if isinstance(exc, PromptError) and model.snapshot(p) == before_co:
                    # refused, nothing touched: whatever was recorded before (or nothing) still is; a
                    # refusal must not turn the user's file into "a link we created"
                    ctx.probe("recorded_checkout_refused")
                else:
                    # a failed checkout may or may not have touched the path and may
                    # or may not have (re-)recorded it: the model does not know
                    recorded[op["slot"]] = None
        elif o == "user_write":
            p = slot_path(op["slot"])
            if not os.path.lexists(p):
                continue
            if os.path.isdir(p) and not os.path.islink(p):
                target = os.path.join(p, op["rel"])
                if op.get("existing"):
                    # edit a file that IS there (chosen by position), not a new name
                    have = sorted(r for r, v in (model.snapshot(p) or {}).items() if v[0] == "file")
                    if have:
                        target = os.path.join(p, have[int(op["pick"] * len(have)) % len(have)])
            else:
                target = p
            data = b"edit-%d" % op["tag"]
            if op["how"] in ("inplace", "inplace_older") and os.path.isfile(target) and not os.path.islink(target) and os.stat(target).st_nlink == 1:
                ctx.clock.advance(2 * 10**9)
                m0 = REAL["os.stat"](target).st_mtime_ns
                with REAL["open"](target, "r+b") as f:
                    f.write(data)
                    f.truncate()
                if op["how"] == "inplace_older":
                    # the clock had stepped back, or a tool restored an OLDER timestamp (cp -p, rsync -t):
                    # the file is modified although its mtime did not grow
                    m1 = m0 - (1 + op["tag"]) * 10**9
                    REAL["os.utime"](target, ns=(m1, m1))
                    ctx.probe("modified_with_older_mtime")
                else:
                    ctx.seam.stamp(target)
            else:
                if os.path.isdir(target) and not os.path.islink(target):
                    continue
                env.user_write(target, data)
            if recorded.get(op["slot"]):
                modified_since = True
        elif o == "user_delete":
            p = slot_path(op["slot"])
            target = os.path.join(p, op["rel"]) if op["rel"] else p
            if os.path.lexists(target):
                env.user_delete(target)
        else:  # cleanup
            before = model.snapshot(env.wsroot) or {}
            used = [slot_path(s) for s in op["used"]]
            ctx.clock.advance(10**9)
            try:
                unused = st.get_unused_links(used, env.w.localfs)
                st.remove_links(unused, env.w.localfs)
            except Exception as exc:  # noqa: BLE001
                ctx.violate("cleanup-raised", type(exc).__name__, repr(exc))
                continue
            after = model.snapshot(env.wsroot) or {}
            gone = sorted(r for r in before if r not in after)
            for r in gone:
                slot = r.split("/")[0]
                why = None
                if slot not in recorded:
                    why = "never-recorded"
                elif slot in op["used"]:
                    why = "in-use"
                elif recorded[slot] is None:
                    continue
                else:
                    # "modified since recorded": the files under the link differ (paths or bytes)
                    # from what was there when it was recorded
                    now = {rr[len(slot) + 1 :] if rr != slot else "": v[1] for rr, v in before.items()
                           if (rr == slot or rr.startswith(slot + "/")) and v[0] in ("file", "symlink")}
                    if now != recorded[slot]:
                        why = "modified-since-recorded"
                if why:
                    ctx.violate("cleanup-removed-wrong-path", why, f"op{n}: {r} removed; used={op['used']} recorded={recorded}")
            for slot in list(recorded):
                if slot not in after:
                    recorded.pop(slot)
            if modified_since:
                nt = True
    ctx.nontrivial = nt


# ----------------------------------------------------------------------- C10
def ref_mtime_token(path):
    """(inode, mtime token) as documented for the link record."""
    st = REAL["os.lstat"](path)
    ino = st.st_ino
    if not os.path.isdir(path):
        s2 = REAL["os.stat"](path)
        return ino, str(round(s2.st_mtime * 1_000_000_000))
    m = {}
    for dp, _, files in os.walk(path):
        for f in files:
            fp = os.path.join(dp, f)
            try:
                m[fp] = REAL["os.stat"](fp).st_mtime
            except FileNotFoundError:
                continue
    tok = hashlib.md5(json.dumps(m, sort_keys=True).encode("utf-8")).hexdigest()  # noqa: S324
    return ino, tok


def _exec_c10(sc, ctx, env):
    from dvc_data.hashfile.checkout import checkout

    cfg = sc["cfg"]
    path = os.path.join(env.wsroot, "out")
    prior_t, target_t = sc["trees"][sc["prior"]], sc["trees"][sc["target"]]
    single = cfg.get("single_file")
    seam = ctx.seam

    def obj_for(ti):
        if single:
            return env.file_obj(sorted(sc["trees"][ti].values())[0])
        return env.tree_obj(ti)

    def want_for(ti):
        t = sc["trees"][ti]
        if single:
            return {"": env.contents[sorted(t.values())[0]]}
        return {rel: env.contents[ci] for rel, ci in t.items()}

    nsaved = [0]
    if env.state is not None:
        real_set_link = env.state.set_link

        def counting_set_link(*a, **kw):
            nsaved[0] += 1
            return real_set_link(*a, **kw)

        env.state.set_link = counting_set_link
    env.odb.cache_types = [cfg["l0"]]
    checkout(path, env.w.localfs, obj_for(sc["prior"]), env.odb, force=True, state=env.state)
    if not single:
        for e in sc["edits"]:
            p = os.path.join(path, e.get("rel", ""))
            if e["op"] == "add":
                if any(r == e["rel"] or r.startswith(e["rel"] + "/") or e["rel"].startswith(r + "/") for r in list(prior_t) + list(target_t)):
                    continue
                env.user_write(p, env.contents[e["content"]])
            elif e["op"] == "linkpair":
                pa, pb = os.path.join(path, e["a"]), os.path.join(path, e["b"])
                if os.path.isfile(pa) and not os.path.islink(pa) and os.path.lexists(pb) and prior_t.get(e["a"]) == prior_t.get(e["b"]):
                    env.ctx.clock.advance(10**9)
                    REAL["os.unlink"](pb)
                    REAL["os.link"](pa, pb)
            elif e["op"] == "dangling":
                if any(r.startswith(e["rel"] + "/") or e["rel"].startswith(r + "/") for r in list(prior_t) + list(target_t)):
                    continue
                if os.path.isdir(p) and not os.path.islink(p):
                    continue
                if os.path.lexists(p):
                    REAL["os.unlink"](p)
                env.w.mkdirs(os.path.dirname(p))
                REAL["os.symlink"](os.path.join(env.w.p("cache"), "zz", "gone"), p)
                ctx.probe("prior_dangling_symlink")
            elif e["op"] == "oldcache":
                if e["rel"] in prior_t and os.path.lexists(p) and not os.path.isdir(p):
                    data = env.contents[prior_t[e["rel"]]]
                    oid = model.ref_digest("md5", data)
                    env.w.raw_add("cache-old", "local", oid, data)
                    REAL["os.unlink"](p)
                    REAL["os.symlink"](os.path.join(env.w.p("cache-old"), oid[:2], oid[2:]), p)
                    ctx.probe("prior_symlink_into_another_cache_copy")
            elif e["op"] == "replace":
                data = env.contents[e["content"]]
                if e.get("uncached"):
                    data = b"user:" + data
                env.user_write(p, data)
            else:
                env.user_delete(p)
    cache0 = env.cache_objs()
    env.odb.cache_types = [cfg["l1"]]
    ctx.clock.advance(10**9)
    want = want_for(sc["target"])
    disc = f"{cfg['l0']}->{cfg['l1']}"
    n_before = nsaved[0]
    ev_first = len(seam.events)
    rec_ok_first = _record_matches(env, path)
    rmf = cfg.get("ws_rm_fault")
    if rmf and prior_t and not single:
        # ONE file that is in the workspace beforehand cannot be removed (immutable / busy)
        victim = sorted(prior_t)[rmf["nth"] % len(prior_t)]
        seam.faults = [{"at": ("unlink", "remove"), "match": "ws/out/" + victim, "nth": 1, "exc": rmf["exc"],
                        "name": "ws_remove", "count": 1, "sticky": True}]
    try:
        checkout(path, env.w.localfs, obj_for(sc["target"]), env.odb, force=True, state=env.state)
    except Exception as exc:  # noqa: BLE001
        import traceback

        seam.faults = []
        if seam.fired.get("ws_remove"):
            # giving up is fine; the scenario ends here (what a later, fault-free call must achieve
            # is judged in the runs where this call returned)
            ctx.probe("forced_checkout_gave_up_after_failed_removal")
            ctx.nontrivial = True
            return
        ctx.violate("forced-checkout-raised", f"{type(exc).__name__}:{disc}", f"{exc!r}\n{traceback.format_exc()[-600:]}")
        return
    seam.faults = []
    got = model.files_of(model.snapshot(path))
    if got != want:
        ctx.violate(
            "not-converged", disc,
            f"missing={sorted(set(want) - set(got))} extra={sorted(set(got) - set(want))} "
            f"wrong={[r for r in want if r in got and got[r] != want[r]]}",
        )
    _check_record(ctx, env, path, "first", disc, saved=nsaved[0] > n_before, changed=_ws_mutated(seam, ev_first),
                  matched_before=rec_ok_first)
    # second call: nothing to do, no workspace mutation
    n0 = len(seam.events)
    ctx.clock.advance(10**9)
    try:
        r2 = checkout(path, env.w.localfs, obj_for(sc["target"]), env.odb, force=True, state=env.state)
    except Exception as exc:  # noqa: BLE001
        ctx.violate("second-checkout-raised", type(exc).__name__, repr(exc))
        r2 = "raised"
    muts = [e for e in seam.events[n0:] if e[0] is not None and ((e[3] or "").startswith("ws/") or (e[4] or "").startswith("ws/"))]
    if r2 is not None and r2 != "raised":
        ctx.violate("second-checkout-not-noop", f"returned-{r2}:{disc}", f"returned {r2!r}")
    if muts and got == want:
        ctx.violate("second-checkout-mutated-workspace", disc, f"{[(e[2], e[3], e[4]) for e in muts[:4]]}")
    if cfg.get("recache"):
        cdir = env.w.p("cache")
        for oid, data in sorted(env.cache_objs().items()):
            cp = os.path.join(cdir, oid[:2], oid[2:])
            if not os.path.isfile(cp):
                continue
            ctx.clock.advance(10**6)
            env.w.raw_write(cp + ".refetch", data, mode=0o444)
            REAL["os.rename"](cp + ".refetch", cp)  # both exist for an instant: the inode number is a new one
        ctx.probe("cache_objects_replaced_by_identical_bytes_new_inode")
    # relink
    ctx.clock.advance(10**9)
    n_before = nsaved[0]
    ev_relink = len(seam.events)
    rec_ok_relink = _record_matches(env, path)
    try:
        checkout(path, env.w.localfs, obj_for(sc["target"]), env.odb, force=True, relink=True, state=env.state)
    except Exception as exc:  # noqa: BLE001
        ctx.violate("relink-raised", f"{type(exc).__name__}:{disc}", repr(exc))
        return
    got3 = model.files_of(model.snapshot(path))
    if got3 != want:
        ctx.violate("relink-changed-content", disc, f"wrong={[r for r in want if got3.get(r) != want[r]]}")
    l1 = cfg["l1"]
    for rel, data in sorted(want.items()):
        fp = os.path.join(path, rel) if rel else path
        if not os.path.lexists(fp):
            continue
        cpath = os.path.join(env.w.p("cache"), model.ref_digest("md5", data)[:2], model.ref_digest("md5", data)[2:])
        lst = REAL["os.lstat"](fp)
        if l1 in ("copy", "reflink"):
            if stat.S_ISLNK(lst.st_mode) or lst.st_nlink != 1:
                ctx.violate("relink-wrong-type", f"want-{l1}:{disc}", f"{rel}: symlink={stat.S_ISLNK(lst.st_mode)} nlink={lst.st_nlink}")
        elif l1 == "hardlink":
            if len(data) and (stat.S_ISLNK(lst.st_mode) or lst.st_ino != REAL["os.lstat"](cpath).st_ino):
                ctx.violate("relink-wrong-type", f"want-hardlink:{disc}", f"{rel}: not the cache object's inode")
            elif not len(data) and stat.S_ISLNK(lst.st_mode):
                # an empty file is never hard-linked (a fresh empty file is created), but it must not stay a symlink
                ctx.violate("relink-wrong-type", f"want-hardlink:empty-file-still-symlink:{disc}", rel)
        elif l1 == "symlink":
            if not stat.S_ISLNK(lst.st_mode) or os.readlink(fp) != cpath:
                ctx.violate("relink-wrong-type", f"want-symlink:{disc}", f"{rel}: {os.readlink(fp) if stat.S_ISLNK(lst.st_mode) else 'not a symlink'}")
    _check_record(ctx, env, path, "relink", disc, saved=nsaved[0] > n_before, changed=_ws_mutated(seam, ev_relink),
                  matched_before=rec_ok_relink)
    cache1 = env.cache_objs()
    changed = sorted(o for o in cache0 if cache1.get(o) != cache0[o])
    if changed:
        ctx.violate("cache-bytes-changed", disc, f"{[model.short(o) + ':' + str(len(cache0[o])) + '->' + str(len(cache1.get(o, b'')) if o in cache1 else 'gone') for o in changed]}")
    prior_b, target_b = want_for(sc["prior"]), want
    added = set(target_b) - set(prior_b)
    removed = set(prior_b) - set(target_b)
    modified = {r for r in target_b if r in prior_b and prior_b[r] != target_b[r]}
    ctx.nontrivial = bool(added and removed and modified) or cfg["l0"] != cfg["l1"]
    ctx.probe(f"links_{cfg['l0']}_to_{cfg['l1']}")


def _ws_mutated(seam, since):
    return any(e[0] is not None and ((e[3] or "").startswith("ws/") or (e[4] or "").startswith("ws/")) for e in seam.events[since:])


def _record_matches(env, path):
    if env.state is None:
        return False
    try:
        rec = env.state.links[os.path.relpath(path, env.wsroot)]
        return tuple(rec) == tuple(ref_mtime_token(path))
    except Exception:  # noqa: BLE001
        return False


def _check_record(ctx, env, path, when, disc, saved=True, changed=False, matched_before=True):
    if env.state is None:
        return
    if not saved and changed and not matched_before:
        # the record was already out of date before this call (user changes since it was saved): C05's business
        return
    if not saved and changed:
        # the call created / replaced / deleted something under the path and saved no record: the record
        # that is there must still describe the result (it does when only something that is not part of
        # the token went away, e.g. a dangling link)
        when = when + ":not-saved"
    elif not saved:
        # this call had nothing to do and saved no record: an older record may
        # legitimately predate later user changes (C05's business, not C10's)
        return
    rel = os.path.relpath(path, env.wsroot)
    try:
        rec = env.state.links[rel]
    except KeyError:
        ctx.violate("link-record-missing", when, rel)
        return
    want = ref_mtime_token(path)
    if tuple(rec) != tuple(want):
        ctx.violate("link-record-mismatch", f"{when}:{disc}", f"recorded {rec} recomputed {want}")
