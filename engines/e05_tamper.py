"""E5 `tamper` — C07: corrupted, not write-protected objects are detected and
dropped, never served; intact ones are never harmed.  Histories of add /
tamper / query operations with the hash-state cache cold, warm or holding an
entry from before the tampering, under the simulated clock.  DESIGN §5 C07.
"""

import os

from simkit import gen, model
from simkit.harness import HarnessError, World
from simkit.seam import REAL

TIERS = {"C07": {"quick": 2400, "thorough": 20000}}
LEVEL = {"C07": "exploration"}
RULE = {
    "C07": "history: 2-8 objects (files + one directory object) added to a LocalHashFileDB or a "
    "generic store either raw (state cold) or through the real add() (state warm), then "
    "tamper operations at a later simulated time (truncate / append / rewrite same length / "
    "rewrite / replace-by-rename, optionally with the old mtime restored) always leaving a "
    "mode other than exactly 0444, chmod of intact objects, clock advances, and queries in "
    "random order and repetition: odb.check, hashfile.check(tree), oids_exist / exists "
    "(local class), checkout of a tree referencing the object, add(verify=True) from a "
    "corrupt source. Oracle per query from a byte-level model. Non-trivial: >=1 tampered "
    "and >=1 intact object each queried at least once with the state cache warm; "
    "distinct = scenario digest.",
}

MODES = [0o644, 0o600, 0o664, 0o544, 0o744, 0o640]
TAMPERS = ["truncate", "append", "rewrite_same", "rewrite", "replace_rename"]


def generate(prop, rng):
    pool = gen.content_pool(rng, n=rng.randint(3, 6))
    if b"" not in pool and rng.random() < 0.4:
        pool.append(b"")
    nobj = len(pool)
    tree = {}
    for i in rng.sample(range(nobj), rng.randint(1, min(3, nobj))):
        tree[rng.choice(["a", "b", "d/a", "d/e/b", "ü"]) + str(i)] = i
    cfg = {
        "store": rng.choice(["local", "local", "generic"]),
        "state": rng.random() < 0.85,
        "add_mode": rng.choice(["raw", "real", "real", "real"]),
        "tick_ns": rng.choice([1000, 1_000_000, 1_000_000_000]),
        "reflink": "enotsup",
        "link": rng.choice(["copy", "hardlink", "symlink"]),
        "read_only": rng.random() < 0.15,  # the store is opened read-only for the query phase
    }
    labels = [f"c{i}" for i in range(nobj)] + ["T"]
    ops = []
    for _ in range(rng.randint(3, 12)):
        o = gen.weighted(rng, [(4, "tamper"), (2, "chmod"), (8, "query"), (1, "advance"), (1, "warm")])
        if o == "tamper":
            how = rng.choice(TAMPERS)
            ops.append({"op": o, "obj": rng.choice(labels), "how": how, "mode": rng.choice(MODES),
                        "keep_mtime": how == "replace_rename" and rng.random() < 0.4})
        elif o == "chmod":
            ops.append({"op": o, "obj": rng.choice(labels), "mode": rng.choice(MODES)})
        elif o == "advance":
            ops.append({"op": o, "ns": rng.choice([10**6, 10**9, 86400 * 10**9])})
        elif o == "warm":
            ops.append({"op": o, "obj": rng.choice(labels)})
        else:
            kind = gen.weighted(rng, [(4, "check"), (2, "hcheck"), (3, "oids_exist"), (2, "exists"), (3, "checkout"), (2, "verify_add")])
            q = {"op": o, "kind": kind, "objs": rng.sample(labels, rng.randint(1, min(3, len(labels))))}
            if kind == "checkout" and rng.random() < 0.3:
                # the store refuses the removal of a rejected object (foreign owner / read-only mount)
                q["rm_fault"] = rng.choice(["EACCES", "EIO"])
            if kind == "verify_add":
                q["hardlink"] = rng.random() < 0.35
                if rng.random() < 0.3:
                    # the read that verifies a freshly added object fails (EIO / stale handle)
                    q["read_fault"] = {"nth": rng.randint(1, 3), "exc": rng.choice(["EIO", "EACCES"])}
                q["corrupt"] = rng.random() < 0.7
                q["evict_first"] = rng.random() < 0.7  # the objects are not in the store yet: add() really copies
                q["objs"] = rng.sample(labels, min(len(labels), rng.choice([1, 2, 3, 3])))
            ops.append(q)
    return {"prop": prop, "cfg": cfg, "contents": [gen.enc(b) for b in pool], "tree": tree, "ops": ops}


def valid(sc):
    n = len(sc["contents"])
    if not sc["tree"] or any(ci >= n for ci in sc["tree"].values()):
        return False
    labs = {f"c{i}" for i in range(n)} | {"T"}
    for op in sc["ops"]:
        if "obj" in op and op["obj"] not in labs:
            return False
        if any(o not in labs for o in op.get("objs", [])):
            return False
    return True


def shrink_paths(sc):
    out = [("list", ("ops",)), ("dict", ("tree",))]
    for i, op in enumerate(sc["ops"]):
        if "objs" in op:
            out.append(("list", ("ops", i, "objs")))
    return out


def simplify(sc):
    import copy

    simple = {"state": False, "add_mode": "raw", "tick_ns": 1_000_000, "link": "copy", "store": "local"}
    for k, v in simple.items():
        if sc["cfg"].get(k) != v:
            c = copy.deepcopy(sc)
            c["cfg"][k] = v
            yield c
    for i, cont in enumerate(sc["contents"]):
        want = gen.enc(b"c%d" % i)
        if cont != want and gen.dec(cont) != b"":
            c = copy.deepcopy(sc)
            c["contents"][i] = want
            yield c


def execute(sc, ctx):
    if not valid(sc):
        raise HarnessError("scenario violates the engine's preconditions")
    from dvc_objects.errors import ObjectFormatError

    import dvc_data.hashfile as hf
    from dvc_data.hashfile.checkout import CheckoutError, checkout
    from dvc_data.hashfile.hash_info import HashInfo
    from dvc_data.hashfile.tree import Tree

    cfg = sc["cfg"]
    w = World(ctx)
    contents = [gen.dec(c) for c in sc["contents"]]
    foid = [model.ref_digest("md5", b) for b in contents]
    state = w.state("tmp", root_dir=w.root) if cfg["state"] else None
    conf = {"tmp_dir": w.p("tmp"), "type": [cfg["link"]]}
    if state is not None:
        conf["state"] = state
    odb = w.odb("cache", cfg["store"], **conf)
    local = cfg["store"] == "local"
    ents = {rel: foid[ci] for rel, ci in sc["tree"].items()}
    doid, dbytes = model.ref_dir(ents)
    oid = {f"c{i}": foid[i] for i in range(len(contents))}
    oid["T"] = doid
    good = {foid[i]: contents[i] for i in range(len(contents))}
    good[doid] = dbytes
    # model: oid -> dict(present, bytes)
    M = {}
    for lab, o in oid.items():
        if cfg["add_mode"] == "real":
            src = w.p("src", lab)
            w.raw_write(src, good[o])
            odb.add(src, w.localfs, o)
        else:
            w.raw_add("cache", cfg["store"], o, good[o])
        M[o] = {"present": True, "bytes": good[o]}
    warm_any = cfg["add_mode"] == "real" and state is not None
    queried_t = queried_i = False
    if cfg.get("read_only"):
        odb.read_only = True

    def opath(o):
        return os.path.join(w.p("cache"), o[:2], o[2:])

    def tampered(o):
        return M[o]["present"] and M[o]["bytes"] != good[o]

    def actual(o):
        p = opath(o)
        try:
            with REAL["open"](p, "rb") as f:
                return f.read()
        except FileNotFoundError:
            return None

    def sync(o, where, expect_removed):
        """Reconcile model with disk after a query that must have checked o."""
        a = actual(o)
        if expect_removed:
            if a is not None:
                ctx.violate("corrupt-object-survived", where, f"{model.short(o)} still in the store (len {len(a)}) after {where}")
            M[o]["present"] = a is not None
            if a is not None:
                M[o]["bytes"] = a
        else:
            if a is None:
                ctx.violate("intact-object-deleted", where, f"{model.short(o)} removed by {where}")
                M[o]["present"] = False
            elif a != good[o]:
                ctx.violate("intact-object-changed", where, model.short(o))

    for n, op in enumerate(sc["ops"]):
        k = op["op"]
        if k == "advance":
            ctx.clock.advance(op["ns"])
            continue
        if k == "warm":
            o = oid[op["obj"]]
            if state is not None and M[o]["present"] and not tampered(o):
                # an earlier command hashed the (still intact) object: the state now holds its entry
                try:
                    odb.check(o)
                    warm_any = True
                except Exception:  # noqa: BLE001
                    pass
                if local and M[o]["present"]:
                    pass
            continue
        if k == "chmod":
            o = oid[op["obj"]]
            if M[o]["present"]:
                REAL["os.chmod"](opath(o), op["mode"])
            continue
        if k == "tamper":
            o = oid[op["obj"]]
            if not M[o]["present"]:
                continue
            p = opath(o)
            cur = M[o]["bytes"]
            st0 = REAL["os.stat"](p)
            ctx.clock.advance(2 * 10**9)
            how = op["how"]
            if how == "truncate":
                new = cur[:-1] if len(cur) > 1 else cur + b"!"
            elif how == "append":
                new = cur + b"+"
            elif how == "rewrite_same":
                new = (bytes((cur[0] ^ 1,)) + cur[1:]) if cur else b"?"
            elif how == "rewrite":
                new = b"tampered %d" % n
            else:
                new = (bytes((cur[0] ^ 2,)) + cur[1:]) if cur else b"??"
            if new == good[o]:
                new = new + b"#"
            if how == "replace_rename":
                tmp = p + ".user"
                with REAL["open"](tmp, "wb") as f:
                    f.write(new)
                REAL["os.chmod"](tmp, op["mode"])
                REAL["os.rename"](tmp, p)
                if op.get("keep_mtime"):
                    REAL["os.utime"](p, ns=(st0.st_mtime_ns, st0.st_mtime_ns))
                else:
                    ctx.seam.stamp(p)
            else:
                REAL["os.chmod"](p, 0o644)
                with REAL["open"](p, "r+b") as f:
                    f.write(new)
                    f.truncate()
                ctx.seam.stamp(p)
                REAL["os.chmod"](p, op["mode"])
            M[o]["bytes"] = new
            continue
        # ---- queries ----------------------------------------------------
        kind = op["kind"]
        objs = [oid[l] for l in op["objs"]]
        ctx.clock.advance(10**6)
        if kind == "check":
            for o in objs:
                if not M[o]["present"]:
                    continue
                t = tampered(o)
                try:
                    odb.check(o)
                    if t:
                        ctx.violate("corrupt-object-accepted", "check", f"op{n}: {model.short(o)} ({'dir' if o.endswith('.dir') else 'file'}) passed check()")
                        M[o]["bytes"] = actual(o) or M[o]["bytes"]
                    else:
                        sync(o, "check", False)
                        if local and M[o]["present"] and (REAL["os.stat"](opath(o)).st_mode & 0o777) != 0o444:
                            ctx.violate("checked-object-not-protected", "check", model.short(o))
                except ObjectFormatError:
                    if t:
                        sync(o, "check", True)
                    else:
                        ctx.violate("intact-object-rejected", "check:" + ("dir" if o.endswith(".dir") else "file"),
                                    f"op{n}: {model.short(o)} mode={oct(REAL['os.stat'](opath(o)).st_mode & 0o777) if actual(o) is not None else 'gone'}")
                        sync(o, "check", False) if actual(o) is not None else M[o].update(present=False)
                except FileNotFoundError:
                    ctx.violate("present-object-not-found", "check", model.short(o))
                queried_t |= t
                queried_i |= not t
        elif kind == "hcheck":
            if not M[doid]["present"] or tampered(doid):
                continue
            members = [doid] + sorted(set(ents.values()))
            anybad = any(tampered(o) or not M[o]["present"] for o in members)
            try:
                hf.check(odb, Tree.load(odb, HashInfo("md5", doid)))
                if anybad:
                    ctx.violate("corrupt-object-accepted", "hashfile.check", f"op{n}")
            except (ObjectFormatError, FileNotFoundError):
                if not anybad:
                    ctx.violate("intact-object-rejected", "hashfile.check", f"op{n}")
            # whatever was tampered and reached may have been removed; resync without judging order
            for o in members:
                a = actual(o)
                if a is None and M[o]["present"] and not tampered(o):
                    ctx.violate("intact-object-deleted", "hashfile.check", model.short(o))
                M[o]["present"] = a is not None
                if a is not None:
                    M[o]["bytes"] = a
        elif kind in ("oids_exist", "exists"):
            if not local:
                continue
            q = [o for o in objs]
            if kind == "oids_exist":
                got = set(odb.oids_exist(q))
            else:
                got = {o for o in q if odb.exists(o)}
            for o in q:
                if not M[o]["present"]:
                    if o in got:
                        ctx.violate("absent-object-reported", kind, model.short(o))
                    continue
                t = tampered(o)
                if t and o in got:
                    ctx.violate("corrupt-object-accepted", kind, f"op{n}: {model.short(o)} reported as existing")
                    M[o]["bytes"] = actual(o) or M[o]["bytes"]
                elif t:
                    sync(o, kind, True)
                elif o not in got:
                    ctx.violate("intact-object-rejected", f"{kind}:{'dir' if o.endswith('.dir') else 'file'}", f"op{n}: {model.short(o)}")
                    a = actual(o)
                    M[o]["present"] = a is not None
                else:
                    sync(o, kind, False)
                queried_t |= t
                queried_i |= not t
        elif kind == "checkout":
            if not M[doid]["present"] or tampered(doid):
                continue
            dest = w.p("co", f"q{n}")
            w.mkdirs(os.path.dirname(dest))
            members = sorted(set(ents.values()))
            anybad = any(tampered(o) or not M[o]["present"] for o in members)
            raised = None
            rm_fired0 = ctx.seam.fired.get("reject_rm", 0)
            if op.get("rm_fault"):
                # every attempt to remove one of the tampered objects fails for the duration of this call
                ctx.seam.faults = [{"at": ("unlink", "remove"), "match": f"cache/{o[:2]}/{o[2:]}", "nth": 1,
                                    "exc": op["rm_fault"], "name": "reject_rm", "count": 99}
                                   for o in members if M[o]["present"] and tampered(o)]
            try:
                checkout(dest, w.localfs, Tree.load(odb, HashInfo("md5", doid)), odb, force=True, state=state)
            except (CheckoutError, FileNotFoundError, ObjectFormatError) as exc:
                raised = exc
            except OSError as exc:
                if ctx.seam.fired.get("reject_rm", 0) == rm_fired0:
                    raise
                raised = exc  # the injected failure surfaced: refusing is fine, materialising wrong bytes is not
                ctx.probe("checkout_refused_after_failed_removal")
            finally:
                ctx.seam.faults = []
            snap = model.files_of(model.snapshot(dest))
            for rel, ci in sc["tree"].items():
                b = snap.get(rel)
                if b is not None and b != contents[ci]:
                    ctx.violate("corrupt-bytes-materialised", f"checkout:{cfg['link']}", f"op{n}: {rel} has {len(b)} bytes != object {model.short(foid[ci])}")
            if not anybad and ctx.seam.fired.get("reject_rm", 0) == rm_fired0 and (raised is not None or any(snap.get(rel) != contents[ci] for rel, ci in sc["tree"].items())):
                ctx.violate("intact-checkout-failed", f"{cfg['link']}", f"op{n}: raised={raised!r}")
            for o in members + [doid]:
                a = actual(o)
                if a is None and M[o]["present"] and not tampered(o):
                    ctx.violate("intact-object-deleted", "checkout", model.short(o))
                if a is not None and M[o]["present"] and not tampered(o) and a != good[o]:
                    ctx.violate("intact-object-changed", "checkout", model.short(o))
                M[o]["present"] = a is not None
                if a is not None:
                    M[o]["bytes"] = a
            queried_t |= anybad
            queried_i |= not anybad
        else:  # verify_add: one add() call for several objects, some from corrupt sources
            if cfg.get("read_only"):
                continue
            srcs, pre = [], {}
            if op.get("evict_first"):
                for o in objs:
                    w.raw_rm("cache", cfg["store"], o)
                    M[o]["present"] = False
                    M[o]["bytes"] = good[o]
            for j, o in enumerate(objs):
                src = w.p("vsrc", f"s{n}_{j}")
                data = good[o]
                # the FIRST listed object comes from a corrupt source (when requested), the rest alternate
                if op.get("corrupt") and j % 2 == 0:
                    data = data + b"~corrupt"
                w.raw_write(src, data)
                srcs.append(src)
                pre[o] = M[o]["present"] and M[o]["bytes"] != good[o]
            rf = op.get("read_fault")
            rf0 = ctx.seam.fired.get("verify_read", 0)
            if rf:
                ctx.seam.faults = [{"at": ("open_r",), "match": "cache/", "sub": True, "nth": rf["nth"], "exc": rf["exc"],
                                    "name": "verify_read", "count": 1}]
            try:
                odb.add(srcs, w.localfs, list(objs), verify=True, hardlink=bool(op.get("hardlink")))
            except Exception as exc:  # noqa: BLE001
                if not (isinstance(exc, OSError) and ctx.seam.fired.get("verify_read", 0) > rf0):
                    ctx.violate("verify-add-raised", type(exc).__name__, repr(exc))
            finally:
                ctx.seam.faults = []
            read_failed = ctx.seam.fired.get("verify_read", 0) > rf0
            if read_failed:
                # the add could not verify (and may have given up): nothing is claimed about what it left,
                # except that nothing mismatching may pass for valid now
                ctx.probe("verification_read_failed")
                for j, o in enumerate(objs):
                    a = actual(o)
                    if a is None or a == good[o]:
                        continue
                    if cfg["store"] == "local":
                        accepted = odb.exists(o)  # the local existence query is an integrity check
                    else:
                        try:
                            odb.check(o)
                            accepted = True
                        except Exception:  # noqa: BLE001
                            accepted = False
                    if accepted:
                        ctx.violate("corrupt-object-accepted", "after-unverifiable-add", model.short(o))
            for j, o in enumerate(objs):
                a = actual(o)
                if a is not None and a != good[o] and not read_failed:
                    ctx.violate("verifying-store-retained-mismatch",
                                ("corrupt-source" if op.get("corrupt") else "pre-tampered") + f":position{min(j, 2)}-of-{min(len(objs), 3)}",
                                f"op{n}: {model.short(o)} holds {len(a)} wrong bytes after add(verify=True) of {len(objs)} objects")
                if a is None and M[o]["present"] and not pre[o]:
                    ctx.violate("intact-object-deleted", "verify_add", model.short(o))
                M[o]["present"] = a is not None
                if a is not None:
                    M[o]["bytes"] = a
    if state is not None:
        state.close()
    ctx.nontrivial = bool(queried_t and queried_i and warm_any)
    if warm_any:
        ctx.probe("state_warm")
