"""E6 `idxco` — C09: index compare/apply converges to the target from any
prior workspace state (file<->directory replacements at any depth, explicit or
lazily loaded directory objects, exec bits, link types, delete on/off, evicted
sources reported through onerror).  DESIGN §5 C09.
"""

import os

from simkit import gen, model
from simkit.harness import HarnessError, World
from simkit.seam import REAL

TIERS = {"C09": {"quick": 2400, "thorough": 20000}}
LEVEL = {"C09": "exploration"}
RULE = {
    "C09": "scenario = (prior workspace, target index) drawn independently over one small name "
    "pool so that file<->directory replacements occur at every depth; target given as "
    "explicit file entries and/or an unloaded directory object under a prefix; exec bits; "
    "link type; delete on/off; some target objects (files or the directory object) evicted "
    "from the cache; listing order seeded. Oracle after compare+apply: workspace == target "
    "(delete on), second compare has no create/delete/chmod actions, prior paths outside the "
    "target survive byte-identical (delete off), every unavailable target path reported via "
    "onerror. Non-trivial: >=1 deletion and >=1 creation, or a kind change at depth >=1; "
    "distinct = scenario digest.",
}

NAMES = ["a", "b", "c", "d", "ü", "x.dir"]


def _gen_side(rng, npool, maxn):
    tree = {}
    for _ in range(rng.randint(0, maxn)):
        depth = rng.choice([0, 0, 1, 1, 2, 3])
        parts = [rng.choice(NAMES) for _ in range(depth + 1)]
        rel = "/".join(parts)
        if rel in tree:
            continue
        if any(k.startswith(rel + "/") or rel.startswith(k + "/") for k in tree):
            continue
        tree[rel] = [rng.randrange(npool), rng.random() < 0.2]
    return tree


def generate(prop, rng):
    pool = gen.content_pool(rng, n=rng.randint(3, 6))
    prior = _gen_side(rng, len(pool), 7)
    target = _gen_side(rng, len(pool), 7)
    if not target:
        target = {rng.choice(NAMES): [0, False]}
    # make some paths agree / some conflict deliberately
    for rel in list(prior):
        r = rng.random()
        if r < 0.25 and not any(k.startswith(rel + "/") or rel.startswith(k + "/") or k == rel for k in target):
            target[rel] = list(prior[rel])  # unchanged
        elif r < 0.4 and not any(k.startswith(rel + "/") or rel.startswith(k + "/") or k == rel for k in target):
            target[rel] = [(prior[rel][0] + 1) % len(pool), prior[rel][1]]  # modified
    # lazy directory object: a prefix of the target given as one .dir entry
    prefixes = sorted({"/".join(r.split("/")[:i]) for r in target for i in range(0, len(r.split("/")))})
    lazy = None
    if rng.random() < 0.5 and prefixes:
        lazy = rng.choice(prefixes)
    cfg = {
        "delete": rng.random() < 0.75,
        "links": rng.choice([["copy"], ["hardlink", "copy"], ["symlink", "copy"], ["reflink", "copy"],
                             ["reflink", "symlink"], ["reflink", "hardlink", "symlink"]]),
        "reflink": gen.weighted(rng, [(5, "enotsup"), (3, "nocow"), (2, "cow")]),
        "tick_ns": rng.choice([1000, 1_000_000]),
        "with_state": rng.random() < 0.4,
        # DVC always adds explicit parent-directory entries (loaded=True) for every
        # output key; an index without them is outside the property's "well-formed
        # target" (implicit parents are never created for link types other than copy)
        "explicit_dirs": True,
        "jobs": rng.choice([1, 2, None]),
        "links_arg": rng.random() < 0.6,  # else apply() takes them from odb.cache_types
        "relink": rng.random() < 0.25,  # compare(relink=True): unchanged files are re-created too
        "own_storage": rng.random() < 0.25,  # one explicit target file lives in a second cache, registered at its own key
        "old_via": rng.choice(["md5", "entries"]),  # how the index of the prior workspace is built
        # the n-th removal of a workspace file fails (immutable / busy file): apply may give up, but if it
        # returns it is held to the usual result
        "ws_rm_fault": ({"nth": rng.randint(1, 3), "exc": rng.choice(["EACCES", "EIO"])} if rng.random() < 0.12 else None),
    }
    # some prior paths are symbolic links left by an earlier symlink-type checkout: into the cache
    # (object still there) or dangling (object collected since)
    prior_kinds = {}
    if prior and rng.random() < 0.3:
        for rel in rng.sample(sorted(prior), rng.randint(1, min(3, len(prior)))):
            prior_kinds[rel] = rng.choice(["dangling", "dangling", "symlink"])
    evict = []
    if rng.random() < 0.25:
        files = sorted(target)
        evict = rng.sample(files, rng.randint(1, min(2, len(files))))
    return {
        "prop": prop, "cfg": cfg, "contents": [gen.enc(b) for b in pool],
        "prior": prior, "target": target, "lazy": lazy, "evict": evict, "prior_kinds": prior_kinds,
        "evict_dir": lazy is not None and rng.random() < 0.15,
        # round 7: after a run with unavailable sources the store recovers (objects back) and compare/apply is
        # repeated with the SAME in-memory target index: it has to converge now
        "heal_retry": rng.random() < 0.6,
    }


def _wellformed(tree):
    ks = sorted(tree)
    return not any(b.startswith(a + "/") for a in ks for b in ks if a != b)


def valid(sc):
    n = len(sc["contents"])
    for side in ("prior", "target"):
        if not _wellformed(sc[side]) or any(v[0] >= n for v in sc[side].values()):
            return False
    if not sc["target"]:
        return False
    lazy = sc.get("lazy")
    if lazy is not None and lazy != "":
        if not any(r.startswith(lazy + "/") for r in sc["target"]):
            return False
    if sc.get("evict_dir") and lazy is None:
        return False
    if not sc["cfg"].get("explicit_dirs", True):
        return False
    if any(r not in sc["prior"] for r in sc.get("prior_kinds", {})):
        return False
    return all(e in sc["target"] for e in sc.get("evict", []))


def shrink_paths(sc):
    return [("dict", ("prior",)), ("dict", ("target",)), ("list", ("evict",)), ("dict", ("prior_kinds",))]


def simplify(sc):
    import copy

    simple = {"links": ["copy"], "reflink": "enotsup", "with_state": False, "jobs": 1, "tick_ns": 1_000_000,
              "relink": False, "own_storage": False, "links_arg": True}
    for k, v in simple.items():
        if sc["cfg"].get(k) != v:
            c = copy.deepcopy(sc)
            c["cfg"][k] = v
            yield c
    if sc.get("lazy") is not None:
        c = copy.deepcopy(sc)
        c["lazy"] = None
        c["evict_dir"] = False
        yield c
    for side in ("prior", "target"):
        for rel, v in sc[side].items():
            if v[1]:
                c = copy.deepcopy(sc)
                c[side][rel][1] = False
                yield c
    for i, cont in enumerate(sc["contents"]):
        want = gen.enc(b"c%d" % i)
        if cont != want:
            c = copy.deepcopy(sc)
            c["contents"][i] = want
            yield c


def _target_index(sc, w, odb, contents, foid):
    from dvc_data.hashfile.hash_info import HashInfo
    from dvc_data.hashfile.meta import Meta
    from dvc_data.index import DataIndex, DataIndexEntry, ObjectStorage

    idx = DataIndex()
    idx.storage_map.add_cache(ObjectStorage((), odb))
    lazy = sc.get("lazy")
    target = sc["target"]
    in_lazy = {}
    dirs = set()
    for rel, (ci, ex) in sorted(target.items()):
        parts = tuple(rel.split("/"))
        if lazy is not None and (lazy == "" or rel.startswith(lazy + "/")):
            sub = rel[len(lazy) + 1 :] if lazy else rel
            in_lazy[sub] = foid[ci]
            lp = tuple(lazy.split("/")) if lazy else ()
            for i in range(1, len(lp)):
                dirs.add(lp[:i])
            continue
        idx[parts] = DataIndexEntry(
            key=parts, meta=Meta(size=len(contents[ci]), isexec=bool(ex)), hash_info=HashInfo("md5", foid[ci])
        )
        for i in range(1, len(parts)):
            dirs.add(parts[:i])
    doid = None
    if lazy is not None:
        doid, dbytes = model.ref_dir(in_lazy)
        lp = tuple(lazy.split("/")) if lazy else ()
        idx[lp] = DataIndexEntry(key=lp, meta=Meta(isdir=True), hash_info=HashInfo("md5", doid))
        dirs.discard(lp)
    if sc["cfg"]["explicit_dirs"]:
        for d in sorted(dirs):
            if d not in idx:
                idx[d] = DataIndexEntry(key=d, meta=Meta(isdir=True), loaded=True)
    return idx, doid, (dbytes if lazy is not None else None)


def execute(sc, ctx):
    if not valid(sc):
        raise HarnessError("scenario violates the engine's preconditions")
    from dvc_data.index import build as ibuild
    from dvc_data.index.checkout import apply, compare
    from dvc_data.index.save import md5

    cfg = sc["cfg"]
    w = World(ctx)
    contents = [gen.dec(c) for c in sc["contents"]]
    foid = [model.ref_digest("md5", b) for b in contents]
    ws = w.p("ws")
    prior_bytes = {rel: contents[ci] for rel, (ci, ex) in sc["prior"].items()}
    w.write_tree(ws, prior_bytes, execs={rel for rel, (ci, ex) in sc["prior"].items() if ex})
    state = w.state("tmp", root_dir=ws) if cfg["with_state"] else None
    odb = w.odb("cache", "local", tmp_dir=w.p("tmp"), type=list(cfg["links"]), **({"state": state} if state else {}))
    target = sc["target"]
    for rel, (ci, ex) in target.items():
        w.raw_add("cache", "local", foid[ci], contents[ci])
    idx, doid, dbytes = _target_index(sc, w, odb, contents, foid)
    if doid is not None:
        w.raw_add("cache", "local", doid, dbytes)
    own_rel = None
    if cfg.get("own_storage"):
        from dvc_data.index import ObjectStorage

        lz = sc.get("lazy")
        cand = sorted(r for r in target if not (lz is not None and (lz == "" or r.startswith(lz + "/"))))
        # the file's content must not be needed from the main cache by anybody else
        cand = [r for r in cand if sum(1 for r2, v2 in target.items() if foid[v2[0]] == foid[target[r][0]]) == 1]
        if cand:
            own_rel = cand[len(cand) // 2]
            odb2 = w.odb("cache2", "local", tmp_dir=w.p("tmp"), type=list(cfg["links"]))
            ci = target[own_rel][0]
            w.raw_add("cache2", "local", foid[ci], contents[ci])
            w.raw_rm("cache", "local", foid[ci])
            idx.storage_map.add_cache(ObjectStorage(tuple(own_rel.split("/")), odb2))
            ctx.probe("file_with_own_storage")
    for rel, kind in sorted(sc.get("prior_kinds", {}).items()):
        ci = sc["prior"][rel][0]
        p = os.path.join(ws, rel)
        REAL["os.unlink"](p)
        if kind == "symlink":
            w.raw_add("cache", "local", foid[ci], contents[ci])
            REAL["os.symlink"](os.path.join(w.p("cache"), foid[ci][:2], foid[ci][2:]), p)
        else:
            REAL["os.symlink"](os.path.join(w.p("cache"), "zz", "collected-" + foid[ci][2:]), p)
            prior_bytes.pop(rel, None)  # holds no bytes of its own
            ctx.probe("prior_dangling_symlink")
    unavailable = set()
    for rel in sc.get("evict", []):
        ci = target[rel][0]
        w.raw_rm("cache", "local", foid[ci])
        unavailable.update(r for r, (c2, _) in target.items() if c2 == ci or foid[c2] == foid[ci])
    if own_rel is not None:
        unavailable.discard(own_rel)
    lazy = sc.get("lazy")
    if sc.get("evict_dir") and doid is not None:
        w.raw_rm("cache", "local", doid)
        unavailable.update(r for r in target if lazy == "" or r.startswith(lazy + "/"))
    ctx.clock.advance(10**9)

    errors = []

    def onerror(*args):
        errors.append(args)

    idx.onerror = lambda entry, exc: errors.append(("load", entry.key if entry else None, repr(exc)))
    # a link into the cache dangles too once the scenario evicts its object
    has_dangling = bool(sc.get("prior_kinds"))

    def build_old():
        """The index of the workspace as it is.  Two routes: index.build + save.md5, or (as DVC's
        build_data_index does) build_entries(compute_hash=True).  md5() drops every entry it cannot
        hash, so a workspace holding dangling links is always indexed the second way."""
        if has_dangling or cfg.get("old_via") == "entries":
            from dvc_data.index import DataIndex
            from dvc_data.index.build import build_entries

            o = DataIndex()
            for e in build_entries(ws, w.localfs, compute_hash=True, state=state):
                o.add(e)
            return o
        return md5(ibuild(ws, w.localfs), state=state)

    old = build_old()
    rmf = cfg.get("ws_rm_fault")
    if rmf and sc["prior"]:
        # ONE file that is in the workspace beforehand cannot be removed (immutable / busy); files the
        # operation creates itself are not affected
        victim = sorted(sc["prior"])[rmf["nth"] % len(sc["prior"])]
        ctx.seam.faults = [{"at": ("unlink", "remove"), "match": "ws/" + victim, "nth": 1, "exc": rmf["exc"],
                            "name": "ws_remove", "count": 1, "sticky": True}]
    try:
        diff = compare(old, idx, delete=cfg["delete"], relink=bool(cfg.get("relink")))
        apply(diff, ws, w.localfs, onerror=onerror, state=state,
              links=list(cfg["links"]) if cfg.get("links_arg", True) else None, jobs=cfg["jobs"], update_meta=False)
    except Exception as exc:  # noqa: BLE001
        import traceback

        ctx.seam.faults = []
        if isinstance(exc, OSError) and ctx.seam.fired.get("ws_remove"):
            ctx.probe("apply_gave_up_after_failed_removal")
            _finish(ctx, sc, state)
            return
        kind_change = _kind_change_depth(sc)
        ctx.violate(
            "apply-raised", f"{type(exc).__name__}:{'nested-kind-change' if kind_change >= 1 else 'other'}",
            f"{exc!r}\n{traceback.format_exc()[-700:]}",
        )
        _finish(ctx, sc, state)
        return
    ctx.seam.faults = []
    snap = model.snapshot(ws) or {}
    files = model.files_of(snap)
    want = {rel: contents[ci] for rel, (ci, ex) in target.items()}
    reported = set()
    for e in errors:
        for a in e:
            if isinstance(a, str) and a.startswith(ws):
                reported.add(a[len(ws) + 1 :])
    # target files.  Convergence is claimed with deletion enabled; with delete
    # off a directory standing where the target wants a file cannot be removed,
    # so only conflict-free scenarios are held to it.
    converge = cfg["delete"] or _kind_change_depth(sc) < 0
    for rel in sorted(want if converge else ()):
        if rel in unavailable:
            covered = rel in reported or any(r == "" or rel.startswith(r + "/") for r in reported)
            if files.get(rel) != want[rel] and not covered:
                ctx.violate("unavailable-not-reported", "file" if not sc.get("evict_dir") else "dir",
                            f"{rel} absent/wrong and apply's onerror was not called for it or its directory; "
                            f"reported={sorted(reported)} errors={len(errors)}")
            continue
        if rel not in files:
            ctx.violate("target-missing", _kind_disc(sc, rel), f"{rel} not created; ws has {sorted(files)}")
        elif files[rel] != want[rel]:
            ctx.violate("target-wrong-bytes", _kind_disc(sc, rel), f"{rel}")
        elif target[rel][1] and not (lazy is not None and (lazy == "" or rel.startswith(lazy + "/"))):
            if snap[rel][0] == "file" and not snap[rel][2]:
                ctx.violate("exec-bit-missing", "explicit-entry", rel)
            elif snap[rel][0] == "symlink" and not (REAL["os.stat"](os.path.join(ws, rel)).st_mode & 0o100):
                ctx.violate("exec-bit-missing", "explicit-entry:symlink", rel)
    if cfg["delete"]:
        # (also when some sources are unavailable: that keeps target files from being created, it has no
        # bearing on files the target does not have)
        extra = sorted(set(files) - set(want))
        if extra:
            ctx.violate("stale-file-survived", "delete-on", f"{extra}")
    if cfg["delete"] and not unavailable:
        tdirs = {"/".join(r.split("/")[:i]) for r in want for i in range(1, len(r.split("/")))}
        sdirs = {r for r, v in snap.items() if v[0] == "dir"}
        if sdirs - tdirs:
            nested = any("/" in d or any(o != d and o.startswith(d + "/") for o in sdirs - tdirs) for d in sdirs - tdirs)
            ctx.violate("stale-dir-survived", "nested" if nested else "flat", f"{sorted(sdirs - tdirs)}")
        if tdirs - sdirs:
            ctx.violate("target-dir-missing", "any", f"{sorted(tdirs - sdirs)}")
        # second compare: nothing left to do
        idx2, _, _ = _target_index(sc, w, odb, contents, foid)
        if own_rel is not None:
            idx2.storage_map.add_cache(ObjectStorage(tuple(own_rel.split("/")), odb2))
        try:
            old2 = build_old()
            d2 = compare(old2, idx2, delete=True)
            left = {k: len(getattr(d2, k)) for k in ("files_create", "files_delete", "dirs_delete")}
            # the root key () is never an entry of a built (old) index, so a root
            # directory entry of the target is always reported as "create": harmless
            left["dirs_create"] = len([e for e in d2.dirs_create if e.key != ()])
            if any(left.values()):
                nested = any(len(e.key) >= 2 for e in d2.dirs_delete) or len(d2.dirs_delete) >= 2
                ctx.violate("second-compare-not-empty",
                            "dirs_delete-nested" if (left["dirs_delete"] and nested and not left["files_create"] and not left["files_delete"]) else
                            "+".join(k for k, v in left.items() if v), f"{left}")
        except Exception as exc:  # noqa: BLE001
            ctx.violate("second-compare-raised", type(exc).__name__, repr(exc))
    if not cfg["delete"]:
        for rel, data in sorted(prior_bytes.items()):
            # everything that is neither a target path nor in the way of one (a file where the target
            # has a directory) - files BELOW a path the target wants as a file included: without
            # deletion their directory cannot be replaced, which is reported, not forced
            outside = rel not in want and not any(t.startswith(rel + "/") for t in want)
            if outside and rel in sc.get("prior_kinds", {}):
                # a link into the cache: it must still be there (its object may have been evicted by the scenario)
                if snap.get(rel, ("",))[0] != "symlink":
                    ctx.violate("delete-off-removed", "outside-target:symlink", f"{rel} gone or replaced")
            elif outside and files.get(rel) != data:
                ctx.violate("delete-off-removed", "outside-target", f"{rel} gone or changed")
    if unavailable and sc.get("heal_retry") and cfg["delete"] and not ctx.seam.fired.get("ws_remove"):
        # the store recovers: what the scenario evicted is back; same target index object, new compare/apply
        ctx.probe("heal_retry")
        for rel in sc.get("evict", []):
            ci = target[rel][0]
            w.raw_add("cache", "local", foid[ci], contents[ci])
        if sc.get("evict_dir") and doid is not None:
            w.raw_add("cache", "local", doid, dbytes)
        ctx.clock.advance(10**9)
        del errors[:]
        try:
            old3 = build_old()
            diff3 = compare(old3, idx, delete=True, relink=bool(cfg.get("relink")))
            apply(diff3, ws, w.localfs, onerror=onerror, state=state,
                  links=list(cfg["links"]) if cfg.get("links_arg", True) else None, jobs=cfg["jobs"], update_meta=False)
        except Exception as exc:  # noqa: BLE001
            ctx.violate("heal-retry-raised", type(exc).__name__, repr(exc))
        else:
            files3 = model.files_of(model.snapshot(ws) or {})
            bad = sorted(rel for rel in want if files3.get(rel) != want[rel])
            if bad:
                ctx.violate("heal-retry-not-converged", "dir" if sc.get("evict_dir") else "file",
                            f"{bad} absent/wrong after the store recovered; errors={errors[:3]}")
            extra3 = sorted(set(files3) - set(want))
            if extra3:
                ctx.violate("heal-retry-stale-file", "delete-on", f"{extra3}")
    ndel = len(diff.files_delete) + len(diff.dirs_delete)
    ncre = len(diff.files_create)
    ctx.nontrivial = (ndel >= 1 and ncre >= 1) or _kind_change_depth(sc) >= 1
    if unavailable:
        ctx.probe("unavailable_sources")
    if lazy is not None:
        ctx.probe("lazy_dir_object")
    _finish(ctx, sc, state)


def _finish(ctx, sc, state):
    if state is not None:
        state.close()


def _kind_change_depth(sc):
    """Max depth (number of path parts - 1) at which a path is a file on one
    side and a directory on the other; -1 if none."""
    best = -1
    for a, b in ((sc["prior"], sc["target"]), (sc["target"], sc["prior"])):
        for rel in a:
            if any(o.startswith(rel + "/") for o in b):
                best = max(best, rel.count("/"))
    return best


def _kind_disc(sc, rel):
    prior = sc["prior"]
    if any(p.startswith(rel + "/") for p in prior):
        return "dir-to-file" + ("-nested" if any(p[len(rel) + 1 :].count("/") >= 1 for p in prior if p.startswith(rel + "/")) else "")
    if any(rel.startswith(p + "/") for p in prior):
        return "file-to-dir"
    return "plain"
