"""E7 `statehist` — C13: hashes obtained through the hash-state cache or
carried over by the metadata-based index update are never stale.  Histories
of file mutations and hash queries under a simulated clock that advances,
jumps and steps back.  DESIGN §5 C13.
"""

import json
import os

from simkit import gen, model
from simkit.harness import HarnessError, World
from simkit.seam import REAL

TIERS = {"C13": {"quick": 1600, "thorough": 14000}}
LEVEL = {"C13": "exploration"}
RULE = {
    "C13": "history of 5-25 steps over <=12 files (2% of runs: 1000-2100 files for the SQL batch "
    "boundary): write / in-place overwrite (same or other length) / append / atomic replace "
    "(new inode) / touch / delete / re-create, clock advance (0 .. 1 day), step back, coarse "
    "ticks (1us/1ms/1s/2s); queries: state.get, get_many (SQL batch knob 2/3/7/999; infos "
    "supplied or not), hash_file(state), build(dry_run), build_entries(compute_hash), "
    "index md5 + update(new, old); injected rows of another algorithm / newer version; "
    "non-local filesystem lookups. Every returned hash is compared with the reference "
    "digest of the file's current bytes; batch == single. A mutation that leaves (inode, "
    "mtime, size) all identical is invisible by the property's own wording: counted and "
    "excluded. Non-trivial: >=1 state hit served and >=1 entry invalidated by a visible "
    "mutation; distinct = scenario digest.",
}

NAMES = ["a", "b", "c", "d/a", "d/b", "d/e/c", "ü", "x y", "0", "e/a"]


def generate(prop, rng):
    big = rng.random() < 0.02
    nfiles = rng.randint(1000, 2100) if big else rng.randint(1, 8)
    files = [f"f{i:04d}" for i in range(nfiles)] if big else rng.sample(NAMES, min(nfiles, len(NAMES)))
    cfg = {
        "tick_ns": rng.choice([1000, 1_000_000, 1_000_000_000, 2_000_000_000]),
        "batch": 999 if big else rng.choice([2, 3, 7, 999]),
        "big": big,
        "reflink": "enotsup",
        # workspace entries that are symbolic links to files kept elsewhere (edits go to the target)
        "symlinked": [] if big else [i for i in range(nfiles) if rng.random() < 0.15],
    }
    # names that do not exist at the start (a file may be created there or moved there later)
    cfg["absent"] = [] if big or nfiles < 2 else [i for i in range(1, nfiles) if rng.random() < 0.2]
    cfg["symlinked"] = [i for i in cfg["symlinked"] if i not in cfg["absent"]]
    ops = []
    nsteps = rng.randint(3, 8) if big else rng.randint(5, 25)
    for _ in range(nsteps):
        o = gen.weighted(rng, [(6, "mutate"), (3, "clock"), (9, "query"), (1, "inject")])
        if o == "mutate":
            ops.append({"op": o, "file": rng.randrange(nfiles),
                        "how": rng.choice(["write", "same_len", "diff_len", "append", "replace", "replace_same_len", "touch", "delete",
                                           "recreate", "empty", "restore_old_stat", "restore_old_stat", "replace_keep_mtime",
                                           "move_rewrite", "move_rewrite"]),
                        "tag": rng.randrange(100)})
        elif o == "clock":
            if rng.random() < 0.25:
                ops.append({"op": o, "back": rng.choice([10**3, 10**6, 10**9, 3 * 10**9])})
            else:
                ops.append({"op": o, "adv": rng.choice([0, 10**3, 10**6, 5 * 10**8, 3 * 10**9, 86400 * 10**9])})
        elif o == "inject":
            ops.append({"op": o, "file": rng.randrange(nfiles), "what": rng.choice(["other_algo", "newer_version", "legacy_name"])})
        else:
            kind = gen.weighted(rng, [(3, "get"), (4, "get_many"), (3, "hash_file"), (3, "build_dry"), (2, "build_entries"),
                                      (2, "snap_index"), (2, "update_check"), (1, "nonlocal"), (2, "hash_file_legacy"),
                                      (3, "remd5")])
            q = {"op": o, "kind": kind, "file": rng.randrange(nfiles), "with_info": rng.random() < 0.5,
                 "subset": rng.random(), "persist": rng.random() < 0.4}
            if kind == "snap_index" and not big and rng.random() < 0.35:
                q["between"] = {"same_len": rng.random() < 0.5}
            if kind == "remd5" and rng.random() < 0.6:
                q["read_fault"] = {"nth": rng.randint(1, 3), "exc": rng.choice(["EACCES", "EIO"])}
            if kind == "hash_file" and not big and rng.random() < 0.3:
                # the user rewrites the file after it was read and before its hash is recorded
                q["late_write"] = {"same_len": rng.random() < 0.5}
            if kind in ("build_dry", "build_entries") and not big and rng.random() < 0.35:
                # the user rewrites a file WHILE the directory is being hashed
                q["mid"] = {"file": rng.randrange(nfiles), "after_reads": rng.randint(1, 4), "same_len": rng.random() < 0.5}
            ops.append(q)
    if not big and rng.random() < 0.2:
        # motif: hashed in a batch, emptied in place, hashed in a batch again, then new bytes of the first
        # length under the first (inode, mtime, size), and looked up once more
        f = rng.randrange(nfiles)
        ops += [
            {"op": "query", "kind": rng.choice(["build_dry", "build_entries"]), "file": f, "with_info": True, "subset": 0.5, "persist": False},
            {"op": "clock", "adv": 10**9},
            {"op": "mutate", "file": f, "how": "empty", "tag": 1},
            {"op": "query", "kind": rng.choice(["build_dry", "build_entries"]), "file": f, "with_info": True, "subset": 0.5, "persist": False},
            {"op": "mutate", "file": f, "how": "restore_old_stat", "tag": 0},
            {"op": "query", "kind": rng.choice(["build_dry", "build_entries", "get", "get_many"]), "file": f, "with_info": False,
             "subset": 0.5, "persist": False},
        ]
    return {"prop": prop, "cfg": cfg, "files": files, "ops": ops}


def valid(sc):
    n = len(sc["files"])
    return n > 0 and all(op.get("file", 0) < n for op in sc["ops"])


def shrink_paths(sc):
    return [("list", ("ops",))]


def simplify(sc):
    import copy

    if len(sc["files"]) > 1:
        used = {op.get("file", 0) for op in sc["ops"]}
        if max(used, default=0) < len(sc["files"]) - 1:
            c = copy.deepcopy(sc)
            c["files"] = c["files"][: max(used, default=0) + 1]
            yield c
    for k, v in {"tick_ns": 1_000_000, "batch": 999}.items():
        if sc["cfg"].get(k) != v:
            c = copy.deepcopy(sc)
            c["cfg"][k] = v
            yield c


def execute(sc, ctx):
    if not valid(sc):
        raise HarnessError("scenario violates the engine's preconditions")
    from dvc_objects.fs.memory import MemoryFileSystem

    from dvc_data.hashfile.build import build
    from dvc_data.hashfile.cache import HashesCache
    from dvc_data.hashfile.hash import hash_file
    from dvc_data.hashfile.hash_info import HashInfo
    from dvc_data.index import build as ibuild
    from dvc_data.index import update as iupdate
    from dvc_data.index.build import build_entries
    from dvc_data.index.save import md5 as imd5

    cfg = sc["cfg"]
    HashesCache.SQLITE_MAX_VARIABLE_NUMBER = cfg["batch"]
    w = World(ctx)
    ws = w.p("ws")
    w.mkdirs(ws)
    fs = w.localfs
    state = w.state("tmp", root_dir=ws)
    odb = w.odb("cache", "local", state=state, tmp_dir=w.p("tmp"))
    files = sc["files"]
    cur = {}  # index -> bytes (None = absent)
    versions = {}  # index -> [(mtime_ns, bytes)] of earlier in-place versions (same inode)
    saved = {}  # path -> {token: bytes when a row may have been written}
    row = {}  # path -> (token, bytes) model of the current md5 row
    lrow = {}  # path -> (token, bytes) model of the row while it belongs to the legacy algorithm
    ralt = {}  # path -> (token, [bytes]) a second possibility for the md5 row (file rewritten during a walk:
    #            its directory may have been listed before or after the rewrite)
    hits = invalidations = 0
    gen_n = [0]

    def path(i):
        return os.path.join(ws, files[i])

    symlinked = set(cfg.get("symlinked", []))

    def mp(i):
        """Where the bytes of file i live: the link's target for a symlinked entry."""
        return w.p("ext", f"t{i}") if i in symlinked else path(i)

    def token(p):
        st = REAL["os.stat"](p)
        return (st.st_ino, st.st_mtime, st.st_size)

    def write(i, data, how="write"):
        p = mp(i)
        if how in ("same_len", "diff_len", "append") and cur.get(i) is not None:
            with REAL["open"](p, "r+b") as f:
                if how == "append":
                    f.seek(0, 2)
                    f.write(data)
                    data = cur[i] + data
                else:
                    f.write(data)
                    f.truncate()
            ctx.seam.stamp(p)
        elif how in ("replace", "replace_same_len") and cur.get(i) is not None:
            tmp = p + ".new"
            with REAL["open"](tmp, "wb") as f:
                f.write(data)
            ctx.seam.stamp(tmp)
            REAL["os.rename"](tmp, p)
        else:
            w.raw_write(p, data)
        cur[i] = data

    def fresh(tag, length=None):
        gen_n[0] += 1
        b = b"v%d-%d;\r\n" % (gen_n[0], tag)
        if length is not None:
            b = (b * (length // len(b) + 1))[:length] if length else b""
            if length and b == b"":
                b = b"x"
        return b

    for i in range(len(files)):
        if i in cfg.get("absent", []):
            cur[i] = None
            continue
        write(i, fresh(0) if not cfg["big"] else b"%d" % (i % 7))
        if i in symlinked:
            w.mkdirs(os.path.dirname(path(i)))
            REAL["os.symlink"](mp(i), path(i))
            ctx.probe("symlinked_workspace_entry")
    ctx.clock.advance(10**9)

    def note_saved(paths):
        """Model of the hash-state row after a query that hashes-and-saves on a
        miss: a row whose token still matches is a hit and stays as it is."""
        for i in paths:
            if cur.get(i) is not None:
                try:
                    t = token(path(i))
                except FileNotFoundError:
                    continue
                r = row.get(path(i))
                ra = ralt.get(path(i))
                if ra is not None and ra[0] == t and (r is None or r[0] != t):
                    row[path(i)] = r = ra  # the alternative turned out to be the row that matches
                ralt.pop(path(i), None)
                if r is None or r[0] != t:
                    row[path(i)] = (t, cur[i])
                    lrow.pop(path(i), None)
                saved.setdefault(path(i), {}).setdefault(t, cur[i])

    def judge(i, name, value, where):
        """A hash of algorithm `name` was returned for file i."""
        nonlocal hits
        p = path(i)
        if cur.get(i) is None:
            ctx.violate("hash-for-absent-file", where, files[i])
            return
        if name != "md5":
            ctx.violate("wrong-algorithm-returned", where, f"{files[i]}: {name}")
            return
        want = model.ref_digest("md5", cur[i])
        if value == want:
            return
        try:
            t = token(p)
        except FileNotFoundError:
            return
        r = row.get(p)
        if (r is None or r[0] != t) and ralt.get(p) is not None and ralt[p][0] == t:
            r = ralt[p]
        cands = r[1] if (r is not None and r[0] == t) else None
        if cands is not None:
            # the row was written for this very (inode, mtime, size) triple; it may vouch for any
            # of the contents the file had while that triple was current
            if isinstance(cands, bytes):
                cands = [cands]
            if any(c != cur[i] and value == model.ref_digest("md5", c) for c in cands):
                ctx.probe("invisible_mutation_tolerated")
                return
        ctx.violate("stale-or-wrong-hash", where, f"{files[i]}: returned {value[:8]} actual {want[:8]} (token {t}); model row "
                    f"{(r[0], [model.ref_digest('md5', c)[:8] for c in ([r[1]] if isinstance(r[1], bytes) else r[1])]) if r else None}")

    old_index = None
    old_index_bytes = None
    old_index_hash = {}
    for n, op in enumerate(sc["ops"]):
        k = op["op"]
        if k == "clock":
            if "back" in op:
                ctx.clock.step_back(op["back"])
            else:
                ctx.clock.advance(op["adv"])
            continue
        if k == "mutate":
            i = op["file"]
            how = op["how"]
            had_row = path(i) in saved
            if how == "delete":
                if cur.get(i) is not None:
                    REAL["os.unlink"](path(i))
                    symlinked.discard(i)  # from now on a plain path
                    cur[i] = None
                    versions.pop(i, None)
            elif how == "recreate":
                if cur.get(i) is not None:
                    REAL["os.unlink"](path(i))
                    symlinked.discard(i)
                    cur[i] = None
                versions.pop(i, None)
                write(i, fresh(op["tag"], None))
            elif how == "move_rewrite":
                # the file is renamed to a name that is free right now (same inode) and then rewritten in
                # place with bytes of the same length at a later time
                free = [j for j in range(len(files)) if cur.get(j) is None and j != i]
                if cur.get(i) is not None and free and i not in symlinked and len(cur[i]) > 0:
                    j = free[op["tag"] % len(free)]
                    w.mkdirs(os.path.dirname(path(j)))
                    REAL["os.rename"](path(i), path(j))
                    nb = fresh(op["tag"], len(cur[i]))
                    cur[i] = None
                    versions.pop(i, None)
                    versions.pop(j, None)
                    symlinked.discard(j)
                    ctx.clock.advance(10**9)
                    with REAL["open"](path(j), "r+b") as f:
                        f.write(nb)
                    ctx.seam.stamp(path(j))
                    cur[j] = nb
                    ctx.probe("moved_then_rewritten_in_place")
            elif how == "replace_keep_mtime":
                # atomic replacement (new inode) by bytes of the SAME length carrying the SAME mtime
                # (cp -p / rsync -t / a clock step): size and mtime are unchanged, the inode is not
                if cur.get(i) is not None and len(cur[i]) > 0:
                    st0 = REAL["os.stat"](mp(i))
                    nb = fresh(op["tag"], len(cur[i]))
                    tmp = mp(i) + ".new"
                    with REAL["open"](tmp, "wb") as f:
                        f.write(nb)
                    REAL["os.utime"](tmp, ns=(st0.st_mtime_ns, st0.st_mtime_ns))
                    REAL["os.rename"](tmp, mp(i))
                    versions.pop(i, None)
                    cur[i] = nb
                    ctx.probe("replaced_with_same_size_and_mtime")
            elif how == "touch":
                if cur.get(i) is not None:
                    ctx.seam.stamp(mp(i))
            elif how == "empty":
                if cur.get(i) is not None:
                    versions.setdefault(i, []).append((REAL["os.stat"](mp(i)).st_mtime_ns, cur[i]))
                    write(i, b"", "diff_len")
            elif how == "restore_old_stat":
                # in-place rewrite with NEW bytes but the size and mtime of an EARLIER version
                # (same inode): the clock stepped back and an old (inode, mtime, size) recurs
                old = [v for v in versions.get(i, []) if len(v[1]) > 0]
                if cur.get(i) is not None and old:
                    mt, ob = old[op["tag"] % len(old)]
                    versions.setdefault(i, []).append((REAL["os.stat"](mp(i)).st_mtime_ns, cur[i]))
                    nb = fresh(op["tag"], len(ob))
                    with REAL["open"](mp(i), "r+b") as f:
                        f.write(nb)
                        f.truncate()
                    REAL["os.utime"](mp(i), ns=(mt, mt))
                    cur[i] = nb
                    ctx.probe("old_stat_triple_recurs")
            elif how in ("same_len", "replace_same_len"):
                if cur.get(i) is not None:
                    if how == "same_len":
                        versions.setdefault(i, []).append((REAL["os.stat"](mp(i)).st_mtime_ns, cur[i]))
                    write(i, fresh(op["tag"], len(cur[i])), how)
            elif how == "append":
                write(i, fresh(op["tag"])[:3] or b"+", "append")
            else:
                if how in ("replace",):
                    versions.pop(i, None)
                elif cur.get(i) is not None and how in ("diff_len", "write"):
                    versions.setdefault(i, []).append((REAL["os.stat"](mp(i)).st_mtime_ns, cur[i]))
                write(i, fresh(op["tag"]), how)
            if had_row and cur.get(i) is not None:
                try:
                    if token(path(i)) not in saved.get(path(i), {}):
                        invalidations += 1
                except FileNotFoundError:
                    pass
            continue
        if k == "inject":
            i = op["file"]
            if cur.get(i) is None:
                continue
            p = path(i)
            info = fs.info(p)
            if op["what"] == "other_algo":
                state.save(p, fs, HashInfo("sha256", "0" * 64), info=info)
            elif op["what"] == "legacy_name":
                # a VALID row of the legacy algorithm (its digest differs from md5: contents carry CRLF)
                state.save(p, fs, HashInfo("md5-dos2unix", model.ref_digest("md5-dos2unix", cur[i])), info=info)
                lrow[p] = (token(p), cur[i])
            else:
                from dvc_data.hashfile.state import _checksum

                entry = {"version": state.HASH_VERSION + 1, "checksum": _checksum(info), "size": info["size"],
                         "hash_info": {"md5": "e" * 32}}
                state.hashes[p] = json.dumps(entry)
            row.pop(p, None)
            if op["what"] != "legacy_name":
                lrow.pop(p, None)
            ctx.probe("injected_" + op["what"])
            continue
        # ---- queries ----------------------------------------------------
        kind = op["kind"]
        i = op["file"]
        p = path(i)
        mid_touched = set()
        mid_invisible = {}
        if op.get("mid") and kind in ("build_dry", "build_entries"):
            mid = op["mid"]
            reads = [0]

            def hook(path_read, mid=mid, reads=reads):
                if not path_read.startswith(ws + os.sep):
                    return
                reads[0] += 1
                if reads[0] == mid["after_reads"] + 1 and cur.get(mid["file"]) is not None and not mid_touched:
                    # between two reads of the walk: rewrite a file in place at a later time
                    j = mid["file"]
                    ctx.seam.read_hook = None
                    ctx.clock.advance(10**9)
                    t_before, old_bytes = token(path(j)), cur[j]
                    write(j, fresh(7, len(cur[j]) if mid["same_len"] else None), "same_len" if mid["same_len"] else "diff_len")
                    mid_touched.add(j)
                    # (inode, mtime, size) all unchanged (clock stepped back earlier): invisible by
                    # the property's own wording; the row may keep vouching for the old bytes
                    # the row written by this call carries the token captured at walk time and the hash
                    # of whichever content was read: remember both
                    mid_invisible[j] = (t_before, [old_bytes, cur[j]])
                    ctx.probe("mutation_during_hashing")

            ctx.seam.read_hook = hook
        if kind == "get":
            info = fs.info(p) if (op["with_info"] and cur.get(i) is not None) else None
            meta, hi = state.get(p, fs, info=info)
            if hi is not None:
                if hi.name == "md5":
                    hits += 1
                    judge(i, hi.name, hi.value, "state.get")
        elif kind == "get_many":
            if cfg["big"]:
                idxs = list(range(len(files)))
            else:
                idxs = [j for j in range(len(files)) if (hash((j, n)) % 100) / 100 < max(op["subset"], 0.3)] or [i]
                idxs = sorted(set(idxs) | {i})
            paths = [path(j) for j in idxs]
            infos = {}
            if op["with_info"]:
                for j in idxs:
                    if cur.get(j) is not None:
                        infos[path(j)] = fs.info(path(j))
            res = list(state.get_many(paths, fs, infos))
            if [r[0] for r in res] != paths:
                ctx.violate("get_many-misaligned", "order-or-count", f"asked {len(paths)} got {len(res)}")
            for (rp, meta, hi), j in zip(res, idxs):
                single = state.get(path(j), fs)
                sv = single[1].value if single[1] is not None else None
                bv = hi.value if hi is not None else None
                if rp == path(j) and sv != bv:
                    ctx.violate("batch-single-disagree", f"batch={cfg['batch']}", f"{files[j]}: batch {bv} single {sv} (n={len(paths)})")
                if hi is not None and hi.name == "md5" and rp == path(j):
                    hits += 1
                    judge(j, hi.name, hi.value, f"get_many:batch={cfg['batch']}")
        elif kind == "hash_file":
            if cur.get(i) is None:
                continue
            info = fs.info(p) if op["with_info"] else None
            late = []
            t_before, old_bytes = token(p), cur[i]
            if op.get("late_write"):
                real_save = state.save

                def save_hook(path_, fs_, hi_, info=None, _i=i):
                    if path_ == p and not late:
                        # between the end of hashing and the recording of the hash: a visible rewrite
                        ctx.clock.advance(10**9)
                        write(_i, fresh(9, len(cur[_i]) if op["late_write"]["same_len"] else None),
                              "same_len" if op["late_write"]["same_len"] else "diff_len")
                        late.append(_i)
                        ctx.probe("file_rewritten_between_hashing_and_recording")
                    return real_save(path_, fs_, hi_, info=info)

                state.save = save_hook
            try:
                meta, hi = hash_file(p, fs, "md5", state=state, info=info)
            finally:
                if op.get("late_write"):
                    del state.save
            if not late:
                judge(i, hi.name, hi.value, "hash_file")
                note_saved([i])
            else:
                # the answer of THIS call describes the bytes it read; the row it wrote must pair them with
                # the triple taken BEFORE reading (never with the file's new triple): that is what the model
                # row says, so a later hit under the new triple is judged as a plain stale hash
                versions.pop(i, None)
                row[p] = (t_before, [old_bytes])
                ralt.pop(p, None)
                lrow.pop(p, None)
            if late and token(p) == t_before:
                # the clock had stepped back and the lengths coincide: (inode, mtime, size) did not change,
                # an invisible mutation by the statement's own wording - the row may vouch for either content
                row[p] = (t_before, [old_bytes, cur[i]])
                ctx.probe("late_write_invisible")
        elif kind == "hash_file_legacy":
            if cur.get(i) is None:
                continue
            meta, hi = hash_file(p, fs, "md5-dos2unix", state=state)
            want = model.ref_digest("md5-dos2unix", cur[i])
            if hi.name != "md5-dos2unix":
                ctx.violate("wrong-algorithm-returned", "hash_file:md5-dos2unix", f"{files[i]}: {hi.name}")
            t = token(p)
            lr = lrow.get(p)
            if hi.name == "md5-dos2unix" and hi.value != want:
                # same tolerance as for md5 rows: a legacy row written for this very (inode, mtime, size)
                # triple may keep vouching for the bytes the file had when the triple was last current
                if lr is not None and lr[0] == t and lr[1] != cur[i] and hi.value == model.ref_digest("md5-dos2unix", lr[1]):
                    ctx.probe("invisible_mutation_tolerated")
                else:
                    ctx.violate("stale-or-wrong-hash", "hash_file:md5-dos2unix", f"{files[i]}: returned {hi.value[:8]} want {want[:8]}")
            if lr is None or lr[0] != t:
                lrow[p] = (t, cur[i])  # a miss: hashed afresh and saved under the current triple
            row.pop(p, None)  # the row now belongs to another algorithm
        elif kind == "build_dry":
            if not any(v is not None for v in cur.values()):
                continue
            _, _, obj = build(odb, ws, fs, "md5", dry_run=True)
            got = {"/".join(key): hi for key, _, hi in obj}
            want_files = {files[j] for j in range(len(files)) if cur.get(j) is not None}
            if set(got) != want_files:
                ctx.violate("build-listing", "paths", f"got {sorted(got)[:5]} want {sorted(want_files)[:5]}")
            ctx.seam.read_hook = None
            for j in range(len(files)):
                # a file rewritten while this very call was hashing may legitimately be
                # reported with either content; what must not happen is a stale row LATER
                if cur.get(j) is not None and files[j] in got and j not in mid_touched:
                    judge(j, got[files[j]].name, got[files[j]].value, "build(dry_run)")
            note_saved([j for j in range(len(files)) if j not in mid_touched])
            for j in mid_touched:
                lrow.pop(path(j), None)
                if mid_invisible.get(j):
                    row[path(j)] = mid_invisible[j]
                    try:
                        ralt[path(j)] = (token(path(j)), [cur[j]])  # listed after the rewrite: (new triple, new bytes)
                    except FileNotFoundError:
                        pass
                else:
                    row.pop(path(j), None)
        elif kind == "build_entries":
            ents = list(build_entries(ws, fs, compute_hash=True, state=state))
            ctx.seam.read_hook = None
            by = {"/".join(e.key): e for e in ents}
            for j in range(len(files)):
                e = by.get(files[j])
                if cur.get(j) is not None and e is not None and e.hash_info and j not in mid_touched:
                    judge(j, e.hash_info.name, e.hash_info.value, "build_entries")
            note_saved([j for j in range(len(files)) if j not in mid_touched])
            for j in mid_touched:
                lrow.pop(path(j), None)
                if mid_invisible.get(j):
                    row[path(j)] = mid_invisible[j]
                    try:
                        ralt[path(j)] = (token(path(j)), [cur[j]])  # listed after the rewrite: (new triple, new bytes)
                    except FileNotFoundError:
                        pass
                else:
                    row.pop(path(j), None)
        elif kind == "remd5":
            # an index that already carries hashes (the previous snapshot, still in memory) is run through
            # md5() again: what comes back must be current, entries that changed are dropped
            if old_index is None or op.get("persist") is None:
                continue
            rf = op.get("read_fault")
            rf0 = ctx.seam.fired.get("md5_read", 0)
            if rf:
                ctx.seam.faults = [{"at": ("open_r",), "match": "ws/", "sub": True, "nth": rf["nth"], "exc": rf["exc"],
                                    "name": "md5_read", "count": 1}]
            try:
                again = imd5(old_index, state=state)
            except OSError:
                ctx.seam.faults = []
                if ctx.seam.fired.get("md5_read", 0) > rf0:
                    ctx.probe("md5_refused_after_read_error")
                    continue
                raise
            except Exception:  # noqa: BLE001  (a re-opened index has no data storage: nothing to re-hash)
                ctx.seam.faults = []
                continue
            ctx.seam.faults = []
            for key, e in again.iteritems():
                rel = "/".join(key)
                if rel in files and e.hash_info and cur.get(files.index(rel)) is not None:
                    judge(files.index(rel), e.hash_info.name, e.hash_info.value, "index.md5(again)")
            note_saved(range(len(files)))
        elif kind == "snap_index":
            built = ibuild(ws, fs)
            if op.get("between") and cur.get(i) is not None:
                # somebody rewrites a file after the workspace was listed and before its hashes are looked up
                ctx.clock.advance(10**9)
                write(i, fresh(11, len(cur[i]) if op["between"]["same_len"] else None),
                      "same_len" if op["between"]["same_len"] else "diff_len")
                ctx.probe("file_rewritten_between_build_and_md5")
            old_index = imd5(built, state=state)
            if op.get("persist"):
                # the previous index is written to disk and read back by a later command:
                # only the serialised metadata survives (no inode / mtime)
                from dvc_data.index import DataIndex

                w.mkdirs(w.p("idx"))
                dbp = w.p("idx", f"old{n}.db")
                pidx = DataIndex.open(dbp)
                for key, e in old_index.iteritems():
                    pidx[key] = e
                pidx.commit()
                pidx.close()
                old_index = DataIndex.open(dbp)
                ctx.probe("old_index_reopened_from_disk")
            old_index_bytes = dict(cur)
            old_index_hash = {}
            note_saved(range(len(files)))
            for key, e in old_index.iteritems():
                rel = "/".join(key)
                if rel in files and e.hash_info:
                    old_index_hash[files.index(rel)] = e.hash_info.value
                    judge(files.index(rel), e.hash_info.name, e.hash_info.value, "index.md5")
        elif kind == "update_check":
            if old_index is None:
                continue
            new = ibuild(ws, fs)
            iupdate(new, old_index)
            for key, e in new.iteritems():
                rel = "/".join(key)
                if rel in files and e.hash_info:
                    j = files.index(rel)
                    if cur.get(j) is None:
                        continue
                    want = model.ref_digest("md5", cur[j])
                    if e.hash_info.value != want:
                        # invisible under Meta (inode, mtime, size, exec) by construction?
                        ob = old_index_bytes.get(j)
                        oe = old_index.get(key)
                        same_meta = oe is not None and oe.meta == e.meta
                        already_stale = (
                            ob is not None and old_index_hash.get(j) == e.hash_info.value
                            and old_index_hash.get(j) != model.ref_digest("md5", ob)
                        )  # the old index itself carried a (tolerated) invisible-mutation hash, judged at snap time
                        if (same_meta and ob is not None and ob != cur[j]) or (already_stale and ob == cur[j]):
                            ctx.probe("invisible_mutation_tolerated")
                        else:
                            ctx.violate("carried-over-hash-stale", "index.update", f"{rel}: {e.hash_info.value[:8]} vs {want[:8]}")
                    else:
                        hits += 1
        else:  # nonlocal
            mem = MemoryFileSystem(global_store=False)
            state.save(p, mem, HashInfo("md5", "d" * 32))
            meta, hi = state.get(p, mem)
            if hi is not None or meta is not None:
                ctx.violate("nonlocal-fs-hit", "state.get", files[i])
            r = list(state.get_many([p], mem, {}))
            if r and r[0][2] is not None:
                ctx.violate("nonlocal-fs-hit", "state.get_many", files[i])
            # and the bogus save must not have created/overwritten a row visible locally
            if cur.get(i) is not None:
                m2, h2 = state.get(p, fs)
                if h2 is not None and h2.value == "d" * 32:
                    ctx.violate("nonlocal-save-leaked", "state.save", files[i])
    state.close()
    ctx.stats["hits"] = hits
    ctx.stats["invalidations"] = invalidations
    ctx.nontrivial = hits >= 1 and invalidations >= 1
