"""E8 `crash` — C15: the process dies (os._exit) at the k-th seam point of an
operation, for EVERY k of the operation's golden run; a second, fresh process
audits what is on disk, re-runs the operation, and audits again.
DESIGN §3.7, §5 C15.
"""

import json
import os
import random
import sqlite3
import sys
import traceback

from simkit import gen, model
from simkit.harness import HarnessError, World, real_makedirs, rm_root
from simkit.seam import REAL

TIERS = {"C15": {"quick": 128, "thorough": 1000}}
LEVEL = {"C15": "fault_enumeration"}
RULE = {
    "C15": "scenario = one of four operation families (stage+transfer into a local store "
    "with hash-state; index save of nested directories; store-to-store transfer "
    "local->local / local->SimRemoteFS / SimRemoteFS->local with verify; closed two-directory "
    "push with shared files and a remote index; upload staging) "
    "x reflink variant x tree; a golden run counts the seam points (fs mutations incl. "
    "mid-copy, state-database calls, remote puts); for every k the process is killed at "
    "point k, a fresh process audits (A1 no protected object mismatches its name, A2 no "
    "hash-state row vouches for wrong content, A3 directory objects closed), re-runs the "
    "operation and audits again (all objects valid, protected, object set == golden). "
    "evaluations = crash points executed; non-trivial = crash point after the first "
    "store mutation and before the last; distinct = distinct (scenario digest, k).",
}
ASSUMPTIONS = {
    "C15": [
        "the generic HashFileDB class over a POSIX directory is not a C15 target "
        "(get_odb never builds it; healing is LocalHashFileDB's); it is covered over SimRemoteFS",
        "a working reflink is modelled as open(O_CREAT|O_TRUNC) followed by one atomic clone",
    ]
}

FAMILIES = ["stage_transfer", "index_save", "xfer_ll", "xfer_lr", "xfer_rl", "upload"]


# ------------------------------------------------------------------ generate
def generate(prop, rng):
    pool = gen.content_pool(rng, n=rng.randint(3, 6))
    fam = gen.weighted(
        rng,
        [(4, "stage_transfer"), (3, "index_save"), (2, "xfer_ll"), (2, "xfer_lr"), (2, "xfer_rl"), (2, "upload"),
         (3, "xfer_multi")],
    )
    tree = gen.gen_tree(rng, range(len(pool)), max_files=rng.randint(2, 5), max_depth=2)
    if fam == "index_save" and not any("/" in r for r in tree):
        tree["nested-dir/" + rng.choice(gen.NAMES)] = rng.randrange(len(pool))
    cfg = {
        "family": fam,
        "reflink": gen.weighted(rng, [(3, "enotsup"), (5, "nocow"), (3, "cow")]),
        "hardlink": fam in ("stage_transfer", "xfer_ll") and rng.random() < 0.45,
        "jobs": rng.choice([1, 2, None]),
        "tick_ns": rng.choice([1000, 1_000_000, 1_000_000_000]),
        "state": fam in ("stage_transfer", "index_save", "upload") or rng.random() < 0.5,
        "pre": rng.random() < 0.3,  # part of the data already in the destination
        "upload_to": rng.choice(["local", "remote"]) if fam == "upload" else None,
        "cache_types": rng.choice([None, ["copy"], ["hardlink", "copy"], ["reflink", "copy"]]),
        "two_caches": fam == "index_save" and rng.random() < 0.5,
    }
    tree2 = None
    if fam == "xfer_multi":
        # a second directory sharing files with the first; closed request, remote index
        tree2 = {"s_" + rel.replace("/", "_"): ci for rel, ci in list(tree.items())[: rng.randint(1, 2)]}
        if rng.random() < 0.6:
            tree2["own"] = rng.randrange(len(pool))
        cfg["multi_dest"] = rng.choice(["local", "local", "remote"])
        cfg["use_index"] = rng.random() < 0.7
        # how the request is sent: transfer(cache_odb=dest) as index.push does, transfer()
        # with the default cache_odb (= source), or through index collect()+push()
        cfg["multi_via"] = rng.choice(["cache_odb_dest", "cache_odb_default", "index_push"])
    sc = {
        "prop": prop,
        "cfg": cfg,
        "contents": [gen.enc(b) for b in pool],
        "tree": tree,
        "tree2": tree2,
        "pre_objs": sorted(rng.sample(sorted(set(tree.values())), rng.randint(0, 1)))
        if cfg["pre"]
        else [],
        "only_k": None,
    }
    return sc


def valid(sc):
    t = sc["tree"]
    if not t:
        return False
    ks = sorted(t)
    if any(b.startswith(a + "/") for a in ks for b in ks if a != b):
        return False
    if sc["cfg"]["family"] == "index_save" and not any("/" in r for r in t):
        return False
    if sc["cfg"].get("two_caches"):
        # the second cache's prefix must be a directory of the tree
        tops = sorted({r.split("/")[0] for r in t if "/" in r})
        if not tops or tops[-1] in t:
            return False
    n = len(sc["contents"])
    if sc["cfg"]["family"] == "xfer_multi":
        t2 = sc.get("tree2")
        if not t2 or any(ci >= n for ci in t2.values()):
            return False
    return all(ci < n for ci in t.values()) and all(ci < n for ci in sc["pre_objs"])


def shrink_paths(sc):
    return [("dict", ("tree",)), ("dict", ("tree2",)), ("list", ("pre_objs",))]


def simplify(sc):
    import copy

    simple = {"jobs": 1, "hardlink": False, "tick_ns": 1_000_000, "cache_types": None, "pre": False,
              "two_caches": False}
    for k, v in simple.items():
        if sc["cfg"].get(k) != v:
            c = copy.deepcopy(sc)
            c["cfg"][k] = v
            if k == "pre":
                c["pre_objs"] = []
            yield c
    for i, cont in enumerate(sc["contents"]):
        want = gen.enc(b"c%d" % i)
        if cont != want:
            c = copy.deepcopy(sc)
            c["contents"][i] = want
            yield c


# ---------------------------------------------------------------- operations
class Env:
    """Everything an operation needs, rebuilt from durable state only."""

    def __init__(self, sc, ctx, sub):
        self.sc, self.ctx, self.sub = sc, ctx, sub
        self.cfg = sc["cfg"]
        self.w = World(ctx, sub)
        self.w.persistent_remotes = True
        self.contents = [gen.dec(c) for c in sc["contents"]]
        self.foid = [model.ref_digest("md5", b) for b in self.contents]
        self.state = None

    def open_state(self):
        if self.cfg["state"] and self.state is None:
            self.state = self.w.state("tmp", root_dir=self.w.p("ws"))
        return self.state

    def cache(self):
        conf = {}
        if self.cfg.get("cache_types"):
            conf["type"] = list(self.cfg["cache_types"])
        return self.w.odb("cache", "local", state=self.open_state(), tmp_dir=self.w.p("tmp"), **conf)

    def close(self):
        if self.state is not None:
            self.state.close()

    # -- set-up: "the user" and earlier, completed operations -------------
    def setup(self):
        fam = self.cfg["family"]
        w = self.w
        tree_bytes = {rel: self.contents[ci] for rel, ci in self.sc["tree"].items()}
        ents = {rel: self.foid[ci] for rel, ci in self.sc["tree"].items()}
        doid, dbytes = model.ref_dir(ents)
        if fam in ("stage_transfer", "index_save", "upload"):
            w.write_tree(w.p("ws"), tree_bytes)
            w.mkdirs(w.p("cache"))
            dest = ("rs", "remote") if self.cfg.get("upload_to") == "remote" else ("cache", "local")
        else:
            skind = "remote" if fam == "xfer_rl" else "local"
            sname = "rsrc" if skind == "remote" else "src"
            for oid, data in [(doid, dbytes)] + [(self.foid[ci], self.contents[ci]) for ci in set(self.sc["tree"].values())]:
                w.raw_add(sname, skind, oid, data)
            if fam == "xfer_multi":
                ents2 = {rel: self.foid[ci] for rel, ci in self.sc["tree2"].items()}
                d2, b2 = model.ref_dir(ents2)
                for oid, data in [(d2, b2)] + [(self.foid[ci], self.contents[ci]) for ci in set(self.sc["tree2"].values())]:
                    w.raw_add(sname, skind, oid, data)
            dest = self.dest_desc()
            w.mkdirs(w.p("cache"))
        for ci in self.sc["pre_objs"]:
            w.raw_add(dest[0], dest[1], self.foid[ci], self.contents[ci])
        w.mkdirs(w.p("tmp"))

    def dest_desc(self):
        fam = self.cfg["family"]
        if fam == "xfer_lr" or self.cfg.get("upload_to") == "remote":
            return ("rs", "remote")
        if fam == "xfer_multi" and self.cfg.get("multi_dest") == "remote":
            return ("rs", "remote")
        return ("cache", "local")

    def dests(self):
        out = [self.dest_desc()]
        if self.cfg.get("two_caches"):
            out.append(("cache2", "local"))
        return out

    def second_prefix(self):
        """First directory component (sorted) of the tree: mapped to cache2."""
        tops = sorted({r.split("/")[0] for r in self.sc["tree"] if "/" in r})
        return (tops[-1],) if tops else None

    # -- the operation under test ----------------------------------------
    def operate(self):
        from dvc_data.hashfile.hash_info import HashInfo
        from dvc_data.hashfile.transfer import transfer

        fam = self.cfg["family"]
        w = self.w
        cfg = self.cfg
        if fam == "stage_transfer":
            from dvc_data.hashfile.build import build

            odb = self.cache()
            staging, _, obj = build(odb, w.p("ws"), w.localfs, "md5", checksum_jobs=cfg["jobs"])
            r = transfer(staging, odb, {obj.hash_info}, shallow=False, hardlink=cfg["hardlink"], jobs=cfg["jobs"])
            return sorted(h.value for h in r.failed)
        if fam == "upload":
            from dvc_data.hashfile.build import build

            if cfg["upload_to"] == "remote":
                odb = w.odb("rs", "remote")
            else:
                odb = self.cache()
            staging, _, obj = build(odb, w.p("ws"), w.localfs, "md5", upload=True)
            r = transfer(staging, odb, {obj.hash_info}, shallow=False, hardlink=False, jobs=cfg["jobs"])
            return sorted(h.value for h in r.failed)
        if fam == "index_save":
            from dvc_data.index import ObjectStorage
            from dvc_data.index import build as ibuild
            from dvc_data.index.save import md5, save

            odb = self.cache()
            idx = ibuild(w.p("ws"), w.localfs)
            idx2 = md5(idx, state=self.open_state())
            idx2.storage_map.add_cache(ObjectStorage((), odb))
            pref = self.second_prefix()
            if cfg.get("two_caches") and pref:
                odb2 = w.odb("cache2", "local", state=self.open_state(), tmp_dir=w.p("tmp"))
                idx2.storage_map.add_cache(ObjectStorage(pref, odb2))
            save(idx2, jobs=cfg["jobs"])
            return []
        ents = {rel: self.foid[ci] for rel, ci in self.sc["tree"].items()}
        doid, _ = model.ref_dir(ents)
        if fam == "xfer_multi":
            # closed request over two directories sharing files, as index.push sends it
            ents2 = {rel: self.foid[ci] for rel, ci in self.sc["tree2"].items()}
            d2, _ = model.ref_dir(ents2)
            src = w.odb("src", "local")
            dest = w.odb("rs", "remote") if cfg["multi_dest"] == "remote" else self.cache()
            ids = {doid, d2} | set(ents.values()) | set(ents2.values())
            via = cfg.get("multi_via", "cache_odb_dest")
            if via == "index_push":
                from dvc_data.hashfile.meta import Meta
                from dvc_data.index import DataIndex, DataIndexEntry, ObjectStorage
                from dvc_data.index.collect import collect
                from dvc_data.index.push import push

                if cfg["multi_dest"] == "remote":
                    dest = w.odb("rs", "remote", **({"tmp_dir": w.p("tmp")} if cfg.get("use_index") else {}))
                elif not cfg.get("use_index"):
                    dest = w.odb("cache", "local", state=self.open_state())
                idx = DataIndex()
                idx[("o1",)] = DataIndexEntry(key=("o1",), meta=Meta(isdir=True), hash_info=HashInfo("md5", doid))
                idx[("o2",)] = DataIndexEntry(key=("o2",), meta=Meta(isdir=True), hash_info=HashInfo("md5", d2))
                idx.storage_map.add_cache(ObjectStorage((), src))
                idx.storage_map.add_remote(ObjectStorage((), dest))
                pushed, failed = push(collect([idx], "remote", push=True), jobs=cfg["jobs"])
                return ["<push reported %d failed>" % failed] if failed else []
            index = None
            if cfg.get("use_index"):
                from dvc_data.hashfile.db.index import ObjectDBIndex

                index = ObjectDBIndex(w.p("tmp"), "destidx")
            try:
                r = transfer(src, dest, {HashInfo("md5", o) for o in ids}, jobs=cfg["jobs"], dest_index=index,
                             cache_odb=dest if via == "cache_odb_dest" else None, shallow=True)
            finally:
                if index is not None:
                    index.close()
            return sorted(h.value for h in r.failed)
        if fam == "xfer_ll":
            src = w.odb("src", "local")
            dest = self.cache()
            verify = False
        elif fam == "xfer_lr":
            src = w.odb("src", "local")
            dest = w.odb("rs", "remote")
            verify = False
        else:
            src = w.odb("rsrc", "remote")
            dest = self.cache()
            verify = True
        r = transfer(
            src, dest, {HashInfo("md5", doid)}, shallow=False, hardlink=cfg["hardlink"],
            jobs=cfg["jobs"], verify=verify,
        )  # fmt: skip
        return sorted(h.value for h in r.failed)


# -------------------------------------------------------------------- audits
def audit(env, after_rerun, golden_objs=None):
    """Returns list of (oracle, disc, detail)."""
    out = []
    for name, kind in env.dests():
        out.extend(_audit_one(env, name, kind, after_rerun, (golden_objs or {}).get(name) if golden_objs is not None else None))
    out.extend(audit_state(env))
    return out


def _audit_one(env, name, kind, after_rerun, golden_objs):
    out = []
    w = env.w
    if kind == "local":
        objs, tmps, modes = model.raw_store_listing(w.p(name), with_mode=True)
    else:
        objs, tmps = w.listing(name, kind)
        modes = {}
    for oid, data in sorted(objs.items()):
        why = model.check_object(oid, data)
        typ = "dir" if oid.endswith(".dir") else "file"
        if why is not None:
            if kind == "local" and modes.get(oid) == 0o444:
                out.append(("A1-protected-mismatch", typ, f"{model.short(oid)} mode 0444 but {why} (len {len(data)})"))
            elif kind == "remote":
                out.append(("remote-object-mismatch", typ, f"{model.short(oid)} {why}"))
            elif after_rerun:
                out.append(("rerun-left-invalid-object", typ, f"{model.short(oid)} {why} mode {oct(modes.get(oid, 0))}"))
        # NOTE: "protected after the re-run" is NOT required: the statement asks for
        # every object to match its name; a valid but unprotected object is simply
        # re-hashed (and protected) by the next integrity check.
    for d, child in model.closure_violations(objs):
        out.append(("A3-dir-without-child", "after-rerun" if after_rerun else "after-crash",
                    f"{model.short(d)} lacks {model.short(child)}"))
    if after_rerun and golden_objs is not None:
        if set(objs) != set(golden_objs):
            extra = sorted(set(objs) - set(golden_objs))
            lack = sorted(set(golden_objs) - set(objs))
            out.append(("rerun-differs-from-golden", "lacking" if lack else "extra",
                        f"{name}: extra={[model.short(o) for o in extra]} lacking={[model.short(o) for o in lack]}"))
    return out


def audit_state(env):
    """A2: a hash-state row whose token matches the file's current token must
    carry the file's actual hash."""
    from fsspec.utils import tokenize

    out = []
    db = os.path.join(env.w.p("tmp"), "hashes", "local", "cache.db")
    if not os.path.exists(db):
        return out
    try:
        con = sqlite3.connect(db, timeout=5)
        rows = con.execute("SELECT key, value FROM Cache WHERE raw = 1").fetchall()
        con.close()
    except sqlite3.Error:
        return out
    for path, raw in rows:
        try:
            ent = json.loads(raw)
            st = REAL["os.stat"](path)
        except (ValueError, OSError, TypeError):
            continue
        token = str(int(tokenize([st.st_ino, st.st_mtime, st.st_size]), 16))
        if ent.get("checksum") != token:
            continue
        hi = ent.get("hash_info") or {}
        val = (hi.get("md5") or "").split(".")[0]
        with REAL["open"](path, "rb") as f:
            actual = model.ref_digest("md5", f.read())
        if val != actual:
            where = "cache" if "/cache/" in path else "workspace"
            out.append(("A2-state-vouches-wrong-hash", where, f"{env.ctx.seam.rel(path)} row={val[:8]} actual={actual[:8]}"))
    return out


# ------------------------------------------------------------------- phases
def _fork(fn):
    """Run fn() in a forked child; returns (exit status, parsed JSON or None)."""
    r, w = os.pipe()
    sys.stdout.flush()
    sys.stderr.flush()
    pid = os.fork()
    if pid == 0:
        code = 0
        try:
            os.close(r)
            res = fn()
            with os.fdopen(w, "wb") as f:
                f.write(json.dumps(res, default=str).encode())
        except BaseException:  # noqa: BLE001
            try:
                with os.fdopen(w, "wb") as f:
                    f.write(json.dumps({"exc": traceback.format_exc()[-2500:]}).encode())
            except Exception:  # noqa: BLE001
                pass
            code = 3
        finally:
            os._exit(code)
    os.close(w)
    with os.fdopen(r, "rb") as f:
        data = f.read()
    _, status = os.waitpid(pid, 0)
    code = os.waitstatus_to_exitcode(status)
    try:
        return code, json.loads(data.decode()) if data else None
    except ValueError:
        return code, None


def _phase_run(sc, ctx, sub, crash_k):
    """Child A (or golden when crash_k is None): set-up, then the operation."""
    seam = ctx.seam
    seam.reset(sub, random.Random(f"{ctx.seed}/order"))
    seam.set_actor("p1")
    env = Env(sc, ctx, sub)
    env.setup()
    base = seam.npoints
    if crash_k is not None:
        seam.crash_at = base + crash_k
    failed = env.operate()
    env.close()
    objs = {name: sorted(env.w.listing(name, kind)[0]) for name, kind in env.dests()}
    evs = [e for e in seam.events if e[0] is not None and e[0] > base]
    return {
        "points": seam.npoints - base,
        "events": [[e[2], e[3], e[4]] for e in evs],
        "objs": objs,
        "failed": failed,
        "trace": seam.trace_digest(),
    }


def _phase_restart(sc, ctx, sub, golden_objs, crash_j=None):
    """Child B: a fresh process.  Audit, re-run the same operation, audit.  With crash_j the
    re-run itself is killed at its j-th seam point (a later, third process then does the same)."""
    seam = ctx.seam
    seam.reset(sub, random.Random(f"{ctx.seed}/order/restart"))
    seam.set_actor("p2")
    env = Env(sc, ctx, sub)
    v1 = audit(env, after_rerun=False)
    err = None
    if crash_j is not None:
        seam.crash_at = seam.npoints + crash_j
    try:
        failed = env.operate()
        if failed:
            err = f"re-run reported failed objects {failed}"
    except Exception as exc:  # noqa: BLE001
        err = f"re-run raised {exc!r}"
    env.close()
    env2 = Env(sc, ctx, sub)
    v2 = audit(env2, after_rerun=True, golden_objs=golden_objs)
    return {"after_crash": v1, "after_rerun": v2, "rerun_error": err}


def _install_state_points(ctx):
    """State.save / save_many / set_link are seam points (crash before each;
    the SQL statement itself is atomic inside SQLite)."""
    from dvc_data.hashfile.state import State

    if getattr(State, "_sim_wrapped", False):
        return
    seam = ctx.seam
    for meth in ("save", "save_many", "set_link"):
        real = getattr(State, meth)

        def make(real, meth):
            def wrapper(self, *a, **kw):
                seam.point("state_" + meth, getattr(self, "tmp_dir", None) or "state", fault=False)
                r = real(self, *a, **kw)
                seam.point("state_" + meth + "_done", getattr(self, "tmp_dir", None) or "state", fault=False)
                return r

            return wrapper

        setattr(State, meth, make(real, meth))
    State._sim_wrapped = True


def execute(sc, ctx):
    if not valid(sc):
        raise HarnessError("scenario violates the engine's preconditions")
    _install_state_points(ctx)
    fam = sc["cfg"]["family"]
    gsub = os.path.join(ctx.root, "g")
    code, golden = _fork(lambda: _phase_run(sc, ctx, gsub, None))
    if code != 0 or not golden or "exc" in (golden or {}):
        raise HarnessError(f"golden run failed: code={code} {golden}")
    if golden["failed"]:
        raise HarnessError(f"golden run reported failed objects: {golden['failed']}")
    rm_root(gsub)
    n = golden["points"]
    ks = sc.get("only_k") or list(range(1, n + 1))
    ctx.extra["subruns"] = 0
    ctx.stats["crash_points"] = 0
    nontrivial = 0
    evs = golden["events"]
    dname, dkind = ("rs", "remote") if (
        fam == "xfer_lr" or sc["cfg"].get("upload_to") == "remote"
        or (fam == "xfer_multi" and sc["cfg"].get("multi_dest") == "remote")
    ) else ("cache", "local")
    dprefix = "<rs>" if dkind == "remote" else "cache/"
    touching = [
        i for i, e in enumerate(evs)
        if (e[1] or "").startswith((dprefix, "cache2/")) or (e[2] or "").startswith((dprefix, "cache2/"))
    ]
    first_t, last_t = (touching[0], touching[-1]) if touching else (n, -1)
    for k in ks:
        if k > n:
            continue
        sub = os.path.join(ctx.root, f"k{k}")
        code, res = _fork(lambda: _phase_run(sc, ctx, sub, k))
        ev = evs[k - 1] if k - 1 < len(evs) else ["?", None, None]
        if code != 77:
            # the run diverged from the golden one before reaching point k
            raise HarnessError(f"crash run k={k} exited {code} instead of dying at the crash point: {res}")
        ctx.seam.fired["crash@" + ev[0]] += 1
        # sometimes the recovery run is killed as well, early in its work (a second crash while the
        # leftovers of the first are being repaired), and a third process recovers
        krng = random.Random(f"{ctx.seed}/double/{k}")
        if krng.random() < 0.3:
            j = krng.randint(1, 4)
            code_j, _ = _fork(lambda: _phase_restart(sc, ctx, sub, golden["objs"], crash_j=j))
            if code_j == 77:
                ctx.probe("recovery_run_crashed_too")
        code2, res2 = _fork(lambda: _phase_restart(sc, ctx, sub, golden["objs"]))
        if code2 != 0 or not res2 or "exc" in res2:
            raise HarnessError(f"restart phase k={k} failed: code={code2} {res2}")
        ctx.extra["subruns"] += 1
        ctx.stats["crash_points"] += 1
        if first_t <= k - 1 <= last_t:
            nontrivial += 1
        where = f"family={fam} k={k}/{n} crash at {ev[0]} {ev[2] or ev[1]}"
        before = len(ctx.violations)
        for oracle, disc, detail in res2["after_crash"]:
            ctx.violate(f"after-crash:{oracle}", f"{fam}:{disc}", f"{detail}; {where}")
        if res2["rerun_error"]:
            ctx.violate("rerun-failed", f"{fam}", f"{res2['rerun_error']}; {where}")
        for oracle, disc, detail in res2["after_rerun"]:
            ctx.violate(f"after-rerun:{oracle}", f"{fam}:{disc}", f"{detail}; {where}")
        if len(ctx.violations) > before and "narrow" not in ctx.extra:
            ctx.extra["narrow"] = {"only_k": [k]}
        rm_root(sub)
    ctx.extra["nontrivial_subruns"] = nontrivial
    ctx.nontrivial = nontrivial > 0
    ctx.extra["golden_points"] = n
    ctx.probe("family_" + fam)
    ctx.state_sig = golden["trace"]
    ctx.trace_override = golden["trace"]


def extra_coverage(prop, recs):
    pts = [r["res"].get("extra", {}).get("golden_points", 0) for r in recs if not r.get("skipped")]
    fams = {}
    for r in recs:
        if r.get("skipped"):
            continue
        for k, v in r["res"].get("probes", {}).items():
            if k.startswith("family_"):
                fams[k[7:]] = fams.get(k[7:], 0) + v
    return {
        "crash_points_executed": sum(r["res"].get("extra", {}).get("subruns", 0) for r in recs if not r.get("skipped")),
        "seam_points_per_operation_min_max": [min(pts) if pts else 0, max(pts) if pts else 0],
        "scenarios_per_family": fams,
        "exhaustive_within_scenario": "every seam point k of the golden run of each sampled scenario is used as a kill point",
    }
