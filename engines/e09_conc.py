"""E9 `conc` — C16: N writers (threads in one process / forked processes)
stage and transfer overlapping content into one LocalHashFileDB while sharing
one hash-state database; a seeded controller decides at every seam point
(filesystem mutation, read, state call) which writer runs next.
DESIGN §3.6, §5 C16.
"""

import hashlib
import json
import os
import random
import sqlite3
import stat

from simkit import gen, model
from simkit.harness import HarnessError, World
from simkit.seam import REAL

TIERS = {"C16": {"quick": 2000, "thorough": 16000}}
LEVEL = {"C16": "exploration"}
RULE = {
    "C16": "scenario = 2-4 writers with heavily overlapping trees, thread or process mode, "
    "optionally as an unprivileged uid (process mode), reflink variant, shared or "
    "per-writer store objects, scheduling policy (uniform / sticky / priority with "
    "change points); one run = one complete schedule chosen at every seam point. "
    "Non-trivial: >=2 writers touched the same object path (interleaved mutating events "
    "of different writers on one path); distinct = distinct per-path writer-order "
    "signature (hash of, for each store path, the sequence of writer ids over its "
    "mutating events).",
}
ASSUMPTIONS = {
    "C16": [
        "pre-emption only at seam points (filesystem / state / stat calls), not at arbitrary bytecodes",
        "threads never park inside an SQLite transaction (state calls are points before/after)",
    ]
}

NOBODY = 65534


def generate(prop, rng):
    nw = gen.weighted(rng, [(5, 2), (4, 3), (2, 4)])
    pool = gen.content_pool(rng, n=rng.randint(2, 5))
    base = gen.gen_tree(rng, range(len(pool)), max_files=rng.randint(1, 4), max_depth=2)
    trees = []
    for i in range(nw):
        style = gen.weighted(rng, [(4, "same"), (3, "renamed"), (3, "overlap")])
        if style == "same" or i == 0:
            t = dict(base)
        elif style == "renamed":
            t = {f"w{i}_{n}": ci for n, ci in enumerate(base.values())}
        else:
            t = dict(base)
            for _ in range(rng.randint(1, 2)):
                t[f"x{i}{rng.randrange(9)}"] = rng.randrange(len(pool))
            if len(t) > 1 and rng.random() < 0.5:
                del t[sorted(t)[0]]
        trees.append(t)
    mode = gen.weighted(rng, [(6, "thread"), (4, "proc")])
    pol = gen.weighted(rng, [(3, "uniform"), (4, "sticky"), (3, "pct")])
    cfg = {
        "mode": mode,
        "uid": mode == "proc" and rng.random() < 0.35,
        "reflink": gen.weighted(rng, [(3, "enotsup"), (5, "nocow"), (2, "cow")]),
        "shared_odb": mode == "thread" and rng.random() < 0.5,
        "policy": {
            "kind": pol,
            "p_stay": rng.choice([0.5, 0.8, 0.95]),
            "change_points": sorted(rng.sample(range(1, 400), rng.randint(1, 4))),
        },
        "sched_seed": rng.randrange(10**9),
        "jobs": rng.choice([1, 2, None]),
        "tick_ns": rng.choice([1000, 1_000_000]),
        "warm_state": rng.random() < 0.3,
        "hardlink": rng.random() < 0.25,
        "big_threshold": rng.choice([None, None, 0]),
        # every chunk read of a workspace / store file is a pre-emption point (before and after the read)
        "fine_reads": rng.random() < 0.6,
    }
    return {
        "prop": prop,
        "cfg": cfg,
        "contents": [gen.enc(b) for b in pool],
        "trees": trees,
        "schedule": None,
    }


def valid(sc):
    n = len(sc["contents"])
    if len(sc["trees"]) < 2:
        return False
    return all(t and all(ci < n for ci in t.values()) for t in sc["trees"])


def shrink_paths(sc):
    out = [("list", ("trees",))]
    for i in range(len(sc["trees"])):
        out.append(("dict", ("trees", i)))
    return out


def simplify(sc):
    import copy

    sched = sc.get("schedule")
    if sched:
        # shortest schedule prefix (rest runs serially) that still fails
        n = len(sched)
        for cut in (0, n // 8, n // 4, n // 2, (3 * n) // 4, n - 1):
            if cut < n:
                c = copy.deepcopy(sc)
                c["schedule"] = sched[:cut]
                yield c
        # merge one context switch: extend a run over the following one
        for i in range(1, len(sched)):
            if sched[i] != sched[i - 1]:
                c = copy.deepcopy(sc)
                j = i
                while j < len(sched) and sched[j] == sched[i]:
                    j += 1
                c["schedule"] = sched[:i] + sched[j:]
                yield c
                if i > 60:
                    break
    simple = {"jobs": 1, "warm_state": False, "hardlink": False, "shared_odb": False, "tick_ns": 1_000_000,
              "big_threshold": None}
    for k, v in simple.items():
        if sc["cfg"].get(k) != v:
            c = copy.deepcopy(sc)
            c["cfg"][k] = v
            yield c
    for i, cont in enumerate(sc["contents"]):
        want = gen.enc(b"c%d" % i)
        if cont != want:
            c = copy.deepcopy(sc)
            c["contents"][i] = want
            yield c


def _install_read_seams(ctx):
    """stat-family calls become scheduler yield points (check-then-act races)."""
    import dvc_data.fsutils as fsutils

    seam = ctx.seam
    real_stat, real_lstat = REAL["os.stat"], REAL["os.lstat"]

    def sim_stat(path, *a, **kw):
        if seam.sched is not None and not isinstance(path, int) and kw.get("dir_fd") is None and seam.inside(path):
            seam.read_point("stat", path)
        return real_stat(path, *a, **kw)

    def sim_lstat(path, *a, **kw):
        if seam.sched is not None and kw.get("dir_fd") is None and seam.inside(path):
            seam.read_point("stat", path)
        return real_lstat(path, *a, **kw)

    os.stat = sim_stat
    os.lstat = sim_lstat
    fsutils.stat = sim_stat


def _install_state_points(ctx):
    from dvc_data.hashfile.state import State

    if getattr(State, "_sim_wrapped", False):
        return
    seam = ctx.seam
    for meth in ("save", "save_many", "get", "get_many", "set_link"):
        real = getattr(State, meth)

        def make(real, meth):
            if meth == "get_many":

                def wrapper(self, *a, **kw):
                    seam.point("state_" + meth, "state", fault=False)
                    res = list(real(self, *a, **kw))
                    seam.point("state_" + meth + "_done", "state", fault=False)
                    return iter(res)

            else:

                def wrapper(self, *a, **kw):
                    seam.point("state_" + meth, "state", fault=False)
                    r = real(self, *a, **kw)
                    seam.point("state_" + meth + "_done", "state", fault=False)
                    return r

            return wrapper

        setattr(State, meth, make(real, meth))
    State._sim_wrapped = True


def _install_sql_points(ctx):
    """Every SQL statement issued while the connection is NOT inside a
    transaction is a scheduler yield point (a writer parked there holds no
    database lock).  Statements inside BEGIN..COMMIT are never points."""
    seam = ctx.seam
    real_connect = sqlite3.connect
    if getattr(sqlite3, "_sim_wrapped", False):
        return

    class SimConnection(sqlite3.Connection):
        def execute(self, sql, *a, **kw):
            if seam.sched is not None and not self.in_transaction:
                seam.point("sql", "sqlite:" + str(sql).split(None, 1)[0].upper(), fault=False)
            return super().execute(sql, *a, **kw)

        def executemany(self, sql, *a, **kw):
            if seam.sched is not None and not self.in_transaction:
                seam.point("sql", "sqlite:" + str(sql).split(None, 1)[0].upper(), fault=False)
            return super().executemany(sql, *a, **kw)

    def connect(database, *a, **kw):
        if seam.inside(database) and "factory" not in kw:
            kw["factory"] = SimConnection
        return real_connect(database, *a, **kw)

    sqlite3.connect = connect
    sqlite3._sim_wrapped = True


def execute(sc, ctx):
    from simkit import sched as S

    if not valid(sc):
        raise HarnessError("scenario violates the engine's preconditions")
    cfg = sc["cfg"]
    seam = ctx.seam
    seam.fine_reads = bool(cfg.get("fine_reads"))
    if cfg.get("big_threshold") is not None:
        from dvc_data.hashfile import build as hbuild

        for fn in (hbuild._build_files, hbuild._get_hashes):
            d = list(fn.__defaults__)
            d[-1] = cfg["big_threshold"]
            fn.__defaults__ = tuple(d)
    _install_read_seams(ctx)
    _install_state_points(ctx)
    _install_sql_points(ctx)
    w = World(ctx)
    contents = [gen.dec(c) for c in sc["contents"]]
    foid = [model.ref_digest("md5", b) for b in contents]
    nw = len(sc["trees"])
    names = [f"w{i}" for i in range(nw)]
    uid = cfg["uid"] and cfg["mode"] == "proc"
    for d in ("cache", "tmp"):
        w.mkdirs(w.p(d))
    expected = {}
    want_dir = {}
    for i, t in enumerate(sc["trees"]):
        w.write_tree(w.p(f"ws{i}"), {rel: contents[ci] for rel, ci in t.items()})
        ents = {rel: foid[ci] for rel, ci in t.items()}
        doid, dbytes = model.ref_dir(ents)
        want_dir[names[i]] = doid
        expected[doid] = dbytes
        for ci in t.values():
            expected[foid[ci]] = contents[ci]
    if uid:
        for dirpath, dirs, files in os.walk(ctx.root):
            REAL["os.chmod"](dirpath, 0o777)
            for f in files:
                REAL["os.chmod"](os.path.join(dirpath, f), 0o666)
    tmp_dir = w.p("tmp")

    shared = {}
    if cfg["mode"] == "thread":
        shared["state"] = w.state("tmp", root_dir=ctx.root)
        if cfg["warm_state"]:
            # an earlier command already hashed writer 0's workspace
            from dvc_data.hashfile.build import build

            odb0 = w.odb("cache", "local", state=shared["state"], tmp_dir=tmp_dir)
            build(odb0, w.p("ws0"), w.localfs, "md5", dry_run=True)
        if cfg["shared_odb"]:
            shared["odb"] = w.odb("cache", "local", state=shared["state"], tmp_dir=tmp_dir)

    import traceback as _tb

    import dvc_data.hashfile.transfer as tmod

    real_log = tmod._log_exception
    err_log = {}

    def logging_log_exception(oid, exc):
        frames = _tb.extract_tb(exc.__traceback__)
        inner = next((f.name for f in reversed(frames) if "dvc_objects" in f.filename or "dvc_data" in f.filename), "?")
        err_log.setdefault(seam.actor(), []).append(f"{type(exc).__name__}:{inner}")
        return real_log(oid, exc)

    tmod._log_exception = logging_log_exception

    def writer(i):
        def run():
            from dvc_data.hashfile.build import build
            from dvc_data.hashfile.transfer import transfer

            if cfg["mode"] == "thread":
                state = shared["state"]
                odb = shared.get("odb") or w.odb("cache", "local", state=state, tmp_dir=tmp_dir)
            else:
                from dvc_data.hashfile.state import State

                state = State(root_dir=ctx.root, tmp_dir=tmp_dir)
                odb = w.odb("cache", "local", state=state, tmp_dir=tmp_dir)
            staging, _, obj = build(odb, w.p(f"ws{i}"), w.localfs, "md5", checksum_jobs=cfg["jobs"])
            r = transfer(staging, odb, {obj.hash_info}, shallow=False, hardlink=cfg["hardlink"], jobs=cfg["jobs"])
            if cfg["mode"] != "thread":
                state.close()
            return {"oid": obj.hash_info.value, "failed": sorted(h.value for h in r.failed),
                    "errors": sorted(set(err_log.get(seam.actor(), [])))}

        return run

    policy = S.Policy(random.Random(f"{cfg['sched_seed']}/sched"), cfg["policy"], sc.get("schedule"))
    writers = {names[i]: writer(i) for i in range(nw)}
    try:
        if cfg["mode"] == "thread":
            sch = S.ThreadSched(seam, policy)
            sch.run(writers)
            events = [(e[1], e[2], e[3], e[4]) for e in seam.events if e[0] is not None and e[1] in writers]
        else:

            def prelude(name):
                seam.events = []
                seam.fired.clear()
                if uid:
                    os.setgroups([])
                    os.setgid(NOBODY)
                    os.setuid(NOBODY)

            sch = S.ProcSched(seam, policy)
            sch.run(writers, child_prelude=prelude)
            events = [(e[0], e[1], e[2], e[3]) for e in sch.events]
    except S.Stall as exc:
        raise HarnessError(str(exc)) from exc
    if shared.get("state") is not None:
        shared["state"].close()
    ctx.extra["schedule"] = sch.choices
    ctx.stats["yields"] = sch.yields
    ctx.stats["schedules"] = 1
    variant = ("uid:" if uid else "") + cfg["mode"]

    # ---- oracle ---------------------------------------------------------
    reported_failure_causes = set()
    for name in names:
        if name in sch.errors:
            et, er, tb = sch.errors[name]
            ctx.violate("writer-raised", f"{variant}:{et}", f"{name}: {er}\n{tb[-600:]}")
            continue
        res = sch.results.get(name)
        if res is None:
            ctx.violate("writer-no-result", variant, name)
            continue
        if res["failed"]:
            objs_now, _ = model.raw_store_listing(w.p("cache"))
            present_ok = all(o in objs_now and model.check_object(o, objs_now[o]) is None for o in res["failed"])
            causes = "+".join(res.get("errors", [])) or "?"
            reported_failure_causes.update(res.get("errors", []))
            ctx.violate(
                "transfer-failed",
                f"{variant}:{cfg['reflink']}:{causes}",
                f"{name} reported failed={[model.short(o) for o in res['failed']]} "
                f"({'all present and intact in the final store' if present_ok else 'some absent in the final store'}); "
                f"upload errors: {res.get('errors')}",
            )
        if res["oid"] != want_dir[name]:
            ctx.violate("wrong-dir-id", variant, f"{name}: {res['oid']} != {want_dir[name]}")
    objs, tmps, modes = model.raw_store_listing(w.p("cache"), with_mode=True)
    for oid, data in sorted(expected.items()):
        if oid not in objs:
            after = (":after:" + "+".join(sorted(reported_failure_causes))) if reported_failure_causes else ""
            ctx.violate("object-missing", f"{variant}:{cfg['reflink']}{after}", model.short(oid))
        elif objs[oid] != data:
            ctx.violate("object-wrong-bytes", variant, f"{model.short(oid)} len={len(objs[oid])} want={len(data)}")
    for oid in sorted(set(objs) - set(expected)):
        ctx.violate("unexpected-object", variant, model.short(oid))
    # Observation only (NOT part of C16's statement, so not a violation): with
    # hardlink=True on a store without working reflinks, a late writer's reflink
    # attempt opens the final object path with O_TRUNC; that path is a hard link
    # to ANOTHER writer's workspace file, which is thereby emptied.
    for i, t in enumerate(sc["trees"]):
        snap = model.files_of(model.snapshot(w.p(f"ws{i}")))
        want = {rel: contents[ci] for rel, ci in t.items()}
        if snap != want:
            ctx.probe("observed_workspace_file_truncated_by_other_writer")
    _audit_state(ctx, w)
    # ---- measures ---------------------------------------------------------
    per_path = {}
    for actor, kind, p1, p2 in events:
        tgt = p2 or p1
        if tgt and tgt.startswith("cache/") and kind not in ("stat", "open_r", "scandir", "copy_read"):
            per_path.setdefault(tgt, []).append(actor)
    sig = hashlib.sha256(json.dumps(sorted(per_path.items())).encode()).hexdigest()[:16]
    ctx.state_sig = sig
    ctx.nontrivial = any(len(set(v)) >= 2 for v in per_path.values())
    ctx.probe("mode_" + variant)
    ctx.probe("policy_" + cfg["policy"]["kind"])
    ctx.stats["context_switches"] = sum(1 for a, b in zip(sch.choices, sch.choices[1:]) if a != b)
    if ctx.violations:
        ctx.extra["narrow"] = {"schedule": sch.choices}


def _audit_state(ctx, w):
    from fsspec.utils import tokenize

    db = os.path.join(w.p("tmp"), "hashes", "local", "cache.db")
    if not os.path.exists(db):
        return
    try:
        con = sqlite3.connect(db, timeout=5)
        rows = con.execute("SELECT key, value FROM Cache WHERE raw = 1").fetchall()
        con.close()
    except sqlite3.Error as exc:
        ctx.violate("state-db-unreadable", "any", repr(exc))
        return
    for path, raw in rows:
        try:
            ent = json.loads(raw)
            st = REAL["os.stat"](path)
        except (ValueError, OSError, TypeError):
            continue
        if not stat.S_ISREG(st.st_mode):
            continue
        token = str(int(tokenize([st.st_ino, st.st_mtime, st.st_size]), 16))
        if ent.get("checksum") != token:
            continue
        val = ((ent.get("hash_info") or {}).get("md5") or "").split(".")[0]
        with REAL["open"](path, "rb") as f:
            actual = model.ref_digest("md5", f.read())
        if val != actual:
            ctx.violate("state-vouches-wrong-hash", "any", f"{ctx.seam.rel(path)} row={val[:8]} actual={actual[:8]}")


def extra_coverage(prop, recs):
    sigs = {r["res"].get("state_sig") for r in recs if not r.get("skipped") and r["res"].get("state_sig")}
    nt = {r["res"].get("state_sig") for r in recs if not r.get("skipped") and r["res"].get("nontrivial")}
    cs = sum(r["res"].get("stats", {}).get("context_switches", 0) for r in recs if not r.get("skipped"))
    return {
        "interleavings_distinct": len(sigs),
        "interleavings_distinct_with_contention": len(nt),
        "interleaving_measure": "distinct per-path writer-order signatures: for every store path, the sequence of writer ids over its mutating events, hashed per run",
        "context_switches_total": cs,
    }
