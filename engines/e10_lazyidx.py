"""E10 `lazyidx` — C17: an index holding directories as unloaded entries
behaves like the explicit index for lookup, iteration, listing, hash-level
diff and through the fs adaptor, whatever the ORDER of accesses (which decides
when loading happens); views filter exactly; loading is idempotent.
DESIGN §5 C17.
"""

import os

from simkit import gen, model
from simkit.harness import HarnessError, World

TIERS = {"C17": {"quick": 1000, "thorough": 10000}}
LEVEL = {"C17": "exploration"}
RULE = {
    "C17": "scenario = logical index (explicit files with explicit parents + 1-3 directory "
    "objects at depth 0-2 containing sub-directories) realised lazily (L: one unloaded entry "
    "per directory object + ObjectStorage) and explicitly (E), in memory or SQLite-backed "
    "(DataIndex.open); a seeded order of 4-20 accesses on L: lookup, membership, "
    "iteritems(prefix, shallow), ls, info, diff(L,E,hash_only), DataFileSystem ls / info / "
    "find / open, view(filter).iteritems over prefix-closed filters, load() twice. Every "
    "answer is compared with a model computed from the logical content; E is run through "
    "the same accesses as a guard on the model itself. Non-trivial: >=1 access that "
    "triggered a load and >=1 access before any load; distinct = scenario digest.",
}

NAMES = ["a", "b", "c", "d", "ü", "x y"]


def generate(prop, rng):
    pool = gen.content_pool(rng, n=rng.randint(3, 6))
    used = set()
    dirobjs = []
    for _ in range(rng.randint(1, 3)):
        depth = rng.choice([0, 1, 1, 2])
        key = [rng.choice(NAMES) for _ in range(depth)] + ["D%d" % len(dirobjs)]
        tree = {}
        for _ in range(rng.randint(1, 5)):
            d = rng.choice([0, 0, 1, 2, 3])
            rel = "/".join([rng.choice(NAMES) for _ in range(d)] + [rng.choice(NAMES) + rng.choice(["", "1"])])
            if rel in tree or any(k.startswith(rel + "/") or rel.startswith(k + "/") for k in tree):
                continue
            tree[rel] = rng.randrange(len(pool))
        if not tree:
            tree["f"] = 0
        if rng.random() < 0.15:
            tree = {}  # the object of an empty directory ("[]")
        dirobjs.append({"key": key, "tree": tree})
    files = {}
    for _ in range(rng.randint(0, 4)):
        d = rng.choice([0, 1, 2])
        rel = "/".join([rng.choice(NAMES) for _ in range(d)] + ["f" + rng.choice(NAMES)])
        files[rel] = rng.randrange(len(pool))
    # keys of dir objects must not be inside / above explicit files or each other
    ops = []
    kinds = [(3, "get"), (2, "contains"), (3, "iteritems"), (3, "ls"), (2, "info"), (1, "diff"),
             (2, "fs_ls"), (1, "fs_info"), (1, "fs_find"), (2, "fs_open"), (3, "view"), (1, "load"), (1, "reopen"),
             (1, "evict_restore"), (2, "view_ls"), (1, "view_fs_find"), (3, "iter_nested"), (1, "crash_load"),
             (2, "evict_cached")]
    for _ in range(rng.randint(4, 20)):
        ops.append({"op": gen.weighted(rng, kinds), "r": rng.random(), "r2": rng.random(),
                    "shallow": rng.random() < 0.3, "detail": rng.random() < 0.5, "absent": rng.random() < 0.15})
        if ops[-1]["op"] == "crash_load":
            ops[-1].update(k=rng.randint(1, 12), how=rng.choice(["load", "iteritems", "ls", "info"]))
        if ops[-1]["op"] == "iter_nested":
            ops[-1].update(inner=rng.choice(["ls", "info_child", "get_child", "fs_ls", "other", "iter_prefix"]),
                           at_dir=rng.random() < 0.6, at=rng.randrange(5), view=rng.random() < 0.6)
    return {
        "prop": prop,
        "cfg": {"sqlite": rng.random() < 0.35, "reflink": "enotsup", "tick_ns": 1_000_000,
                # cache + remote storage; part of the file objects were collected from the cache after its
                # existence index had recorded them (the adaptor must serve them from the remote)
                "split": rng.random() < 0.3, "split_seed": rng.randrange(10**6),
                # a workspace location registered as data storage where nothing has been checked out (yet):
                # every load has to fall through to the cache
                "data_absent": rng.random() < 0.3},
        "contents": [gen.enc(b) for b in pool], "dirobjs": dirobjs, "files": files, "ops": ops,
    }


def _logical(sc, foid):
    """key -> ("file", oid) | ("dir", None) | ("dirobj", doid, tree-entries)"""
    K = {}

    def add_parents(key):
        for i in range(1, len(key)):
            p = tuple(key[:i])
            if p in K and K[p][0] == "file":
                return False
            K.setdefault(p, ("dir", None))
        return True

    for rel, ci in sorted(sc["files"].items()):
        key = tuple(rel.split("/"))
        if key in K or any(k[: len(key)] == key for k in K):
            continue
        if not add_parents(key):
            continue
        K[key] = ("file", foid[ci])
    dobjs = {}
    for d in sc["dirobjs"]:
        key = tuple(d["key"])
        if key in K or any(k[: len(key)] == key for k in K) or any(K.get(key[:i], ("", 0))[0] in ("file", "dirobj") for i in range(1, len(key))):
            continue
        if not add_parents(key):
            continue
        ents = {rel: foid[ci] for rel, ci in d["tree"].items()}
        doid, dbytes = model.ref_dir(ents)
        K[key] = ("dirobj", doid)
        dobjs[key] = (doid, dbytes, ents)
    return K, dobjs


def _full(K, dobjs):
    F = {}
    for key, v in K.items():
        if v[0] == "dirobj":
            F[key] = ("dir", v[1])
            _, _, ents = dobjs[key]
            for rel, oid in ents.items():
                parts = tuple(rel.split("/"))
                F[key + parts] = ("file", oid)
                for i in range(1, len(parts)):
                    F.setdefault(key + parts[:i], ("dir", None))
        else:
            F[key] = ("dir", None) if v[0] == "dir" else ("file", v[1])
    return F


def valid(sc):
    n = len(sc["contents"])
    for d in sc["dirobjs"]:
        t = d["tree"]
        if any(ci >= n for ci in t.values()):
            return False
        ks = sorted(t)
        if any(b.startswith(a + "/") for a in ks for b in ks if a != b):
            return False
    if any(ci >= n for ci in sc["files"].values()):
        return False
    foid = [str(i) for i in range(n)]
    K, dobjs = _logical(sc, foid)
    return bool(dobjs)


def shrink_paths(sc):
    out = [("list", ("ops",)), ("list", ("dirobjs",)), ("dict", ("files",))]
    for i in range(len(sc["dirobjs"])):
        out.append(("dict", ("dirobjs", i, "tree")))
    return out


def simplify(sc):
    import copy

    if sc["cfg"]["sqlite"]:
        c = copy.deepcopy(sc)
        c["cfg"]["sqlite"] = False
        yield c
    for i, d in enumerate(sc["dirobjs"]):
        if len(d["key"]) > 1:
            c = copy.deepcopy(sc)
            c["dirobjs"][i]["key"] = d["key"][-1:]
            yield c


def _norm(entry):
    if entry is None:
        return None
    isdir = bool(entry.meta and entry.meta.isdir)
    hv = entry.hash_info.value if entry.hash_info else None
    return ("dir" if isdir else "file", hv)


def execute(sc, ctx):
    if not valid(sc):
        raise HarnessError("scenario violates the engine's preconditions")
    from dvc_data.fs import DataFileSystem
    from dvc_data.hashfile.hash_info import HashInfo
    from dvc_data.hashfile.meta import Meta
    from dvc_data.index import DataIndex, DataIndexEntry, ObjectStorage, view
    from dvc_data.index.diff import diff as idiff

    w = World(ctx)
    contents = [gen.dec(c) for c in sc["contents"]]
    foid = [model.ref_digest("md5", b) for b in contents]
    by_oid = dict(zip(foid, contents))
    K, dobjs = _logical(sc, foid)
    F = _full(K, dobjs)
    odb = w.odb("cache", "local")
    for oid, data in by_oid.items():
        w.raw_add("cache", "local", oid, data)
    for key, (doid, dbytes, _) in dobjs.items():
        w.raw_add("cache", "local", doid, dbytes)

    split = bool(sc["cfg"].get("split"))
    cache_exist_index = DataIndex() if split else None
    if split:
        odb_remote = w.odb("remote-store", "local")
        for oid, data in by_oid.items():
            w.raw_add("remote-store", "local", oid, data)
        for key, (doid, dbytes, _) in dobjs.items():
            w.raw_add("remote-store", "local", doid, dbytes)

    def attach(idx):
        if sc["cfg"].get("data_absent"):
            from dvc_data.index import FileStorage

            idx.storage_map.add_data(FileStorage((), w.localfs, w.p("never-checked-out")))
        if split:
            idx.storage_map.add_cache(ObjectStorage((), odb, index=cache_exist_index))
            idx.storage_map.add_remote(ObjectStorage((), odb_remote))
        else:
            idx.storage_map.add_cache(ObjectStorage((), odb))

    def new_index(name):
        if sc["cfg"]["sqlite"]:
            w.mkdirs(w.p("idx"))
            idx = DataIndex.open(w.p("idx", name + ".db"))
        else:
            idx = DataIndex()
        attach(idx)
        return idx

    L = new_index("L")
    for key, v in sorted(K.items()):
        if v[0] == "dirobj":
            L[key] = DataIndexEntry(key=key, meta=Meta(isdir=True), hash_info=HashInfo("md5", v[1]))
        elif v[0] == "dir":
            L[key] = DataIndexEntry(key=key, meta=Meta(isdir=True), loaded=True)
        else:
            L[key] = DataIndexEntry(key=key, meta=Meta(size=len(by_oid[v[1]])), hash_info=HashInfo("md5", v[1]))
    E = new_index("E")
    for key, v in sorted(F.items()):
        if v[0] == "dir":
            E[key] = DataIndexEntry(key=key, meta=Meta(isdir=True), hash_info=HashInfo("md5", v[1]) if v[1] else None, loaded=True)
        else:
            E[key] = DataIndexEntry(key=key, meta=Meta(size=len(by_oid[v[1]])), hash_info=HashInfo("md5", v[1]))
    if sc["cfg"]["sqlite"]:
        L.commit()
        E.commit()
    if split:
        import random as _random

        cst = ObjectStorage((), odb, index=cache_exist_index)
        er = _random.Random(sc["cfg"].get("split_seed", 0))
        for oid in sorted(by_oid):
            cst.exists(DataIndexEntry(key=("x",), hash_info=HashInfo("md5", oid)), refresh=True)
        for oid in sorted(by_oid):
            if er.random() < 0.6:
                w.raw_rm("cache", "local", oid)
                ctx.probe("file_object_collected_from_cache_after_indexing")
    keys = sorted(F)
    dirkeys = [()] + [k for k in keys if F[k][0] == "dir"]
    filekeys = [k for k in keys if F[k][0] == "file"]
    inside = [k for k in keys if any(len(k) > len(d) and k[: len(d)] == d for d in dobjs)]
    loaded_any = False
    before_load = False
    load_triggered = False

    def pick(lst, r):
        return lst[int(r * len(lst)) % len(lst)] if lst else None

    def is_loaded():
        return all(bool(L._trie.get(d) and L._trie.get(d).loaded) for d in dobjs)

    def is_loaded_safe():
        try:
            return is_loaded()
        except Exception:  # noqa: BLE001
            return False

    fs_cache = {}
    last_open = [None]

    def run(idx, op, tag):
        """Returns a normalised answer for `op` on `idx`."""
        k = op["op"]
        r, r2 = op["r"], op["r2"]
        if k in ("get", "contains", "info"):
            key = pick(inside if r2 < 0.6 and inside else keys, r)
            if op["absent"]:
                key = (key or ()) + ("nope",)
            try:
                if k == "get":
                    return ("ok", _norm(idx[key]))
                if k == "contains":
                    return ("ok", key in idx)
                info = idx.info(key)
                return ("ok", (info["type"], info.get("md5")))
            except KeyError:
                return ("KeyError",)
        if k == "iteritems":
            prefix = pick(dirkeys + (inside if r2 < 0.3 else []), r) if r2 < 0.8 else None
            if prefix == ():
                prefix = None
            try:
                return ("ok", sorted((key, _norm(e)) for key, e in idx.iteritems(prefix=prefix, shallow=op["shallow"])))
            except KeyError:
                return ("KeyError",)
        if k == "iter_nested":
            # an iteration consumed step by step, with ANOTHER read access between two steps (a consumer
            # that looks something up for the entry it was just handed): the order of accesses
            # decides whether a directory is loaded by the iteration itself or behind its back
            prefix = pick(dirkeys, r) if r2 < 0.5 else None
            if prefix == ():
                prefix = None
            src = view(idx, lambda key: True) if op.get("view") else idx
            out, done = [], False

            def inner(key):
                how = op.get("inner", "ls")
                sub = sorted(kk for kk in keys if len(kk) > len(key) and kk[: len(key)] == key)
                try:
                    if how == "other" or F.get(key, ("file",))[0] != "dir":
                        src.info(pick(inside or keys, r))
                    elif how == "ls":
                        list(src.ls(key, detail=False))
                    elif how == "fs_ls":
                        DataFileSystem(src).ls("/" + "/".join(key), detail=False)
                    elif how == "iter_prefix":
                        list(src.iteritems(prefix=key))
                    elif sub:
                        src.info(sub[0]) if how == "info_child" else src[sub[-1]]
                except KeyError:
                    pass

            try:
                for key, e in src.iteritems(prefix=prefix, shallow=op["shallow"]):
                    out.append((key, _norm(e)))
                    if not done and ((op.get("at_dir") and key in dobjs) or len(out) - 1 == op.get("at", 0)):
                        done = True
                        inner(key)
            except KeyError:
                return ("KeyError",)
            return ("ok", sorted(out), done)
        if k == "ls":
            key = pick(dirkeys, r)
            try:
                if op["detail"]:
                    return ("ok", sorted((ck, inf["type"], inf.get("md5")) for ck, inf in idx.ls(key, detail=True)))
                return ("ok", sorted(idx.ls(key, detail=False)))
            except KeyError:
                return ("KeyError",)
        if k == "diff":
            other = E if idx is L else L
            return ("ok", sorted((c.typ, c.key) for c in idiff(idx, other, hash_only=True)))
        if k == "load":
            idx.load()
            a = sorted((key, _norm(e)) for key, e in idx.iteritems())
            idx.load()
            b = sorted((key, _norm(e)) for key, e in idx.iteritems())
            return ("ok", a, a == b)
        if k.startswith("fs_"):
            # one long-lived adaptor per index object (what it may remember from earlier reads must not
            # outlive a change of the storage behind it)
            fs = fs_cache.get(id(idx))
            if fs is None or fs_cache.get(("idx", id(idx))) is not idx:
                fs = DataFileSystem(idx)
                fs_cache[id(idx)] = fs
                fs_cache[("idx", id(idx))] = idx
            if k == "fs_find":
                return ("ok", sorted(fs.find("/")))
            if k == "fs_open":
                key = pick(filekeys, r)
                with fs.open("/" + "/".join(key), "rb") as f:
                    return ("ok", f.read())
            key = pick(dirkeys if k == "fs_ls" else keys, r)
            path = "/" + "/".join(key)
            if k == "fs_ls":
                if op["detail"]:
                    return ("ok", sorted((i["name"], i["type"]) for i in fs.ls(path, detail=True)))
                return ("ok", sorted(fs.ls(path, detail=False)))
            info = fs.info(path)
            return ("ok", (info["type"], info.get("md5")))
        if k == "view":
            sel = [pick(keys, r), pick(keys, r2)]
            sel = [s for s in sel if s is not None]

            def f(key, sel=sel):
                return any(key == s[: len(key)] or key[: len(s)] == s for s in sel)

            v = view(idx, f)
            # with or without a prefix (a directory of the logical index, possibly
            # strictly inside a still unloaded directory object)
            prefix = None
            if op["detail"]:
                cand = [kk for kk in dirkeys + inside if kk != () and f(kk) and F.get(kk, ("dir",))[0] == "dir"]
                prefix = pick(cand, (r + r2) / 2) if cand else None
            kw = {"prefix": prefix} if prefix is not None else {}
            if op["shallow"] and prefix is not None:
                kw["shallow"] = True
            try:
                first = sorted(key for key, _ in v.iteritems(**kw))
                second = sorted(key for key, _ in v.iteritems(**kw))
            except KeyError:
                return ("KeyError", prefix)
            want_keys = sorted(kk for kk in keys if f(kk) and (prefix is None or kk[: len(prefix)] == prefix))
            if kw.get("shallow"):
                want_keys = [prefix]  # the prefix carries an entry: a shallow iteration stops there
            return ("ok", first, second, want_keys)
        if k in ("view_ls", "view_fs_find"):
            # an all-admitting view must answer listings exactly like the index it wraps
            v = view(idx, lambda key: True)
            if k == "view_fs_find":
                return ("ok", sorted(DataFileSystem(v).find("/")))
            key = pick(dirkeys, r)
            if key == ():
                key = pick([d for d in dirkeys if d != ()] or [()], r2)
            try:
                if op["detail"]:
                    return ("ok", sorted((ck, inf["type"], inf.get("md5")) for ck, inf in v.ls(key, detail=True)))
                return ("ok", sorted(v.ls(key, detail=False)))
            except KeyError:
                return ("KeyError",)
        raise HarnessError("unknown op " + k)

    def expect(op):
        """Model answer where the model (not E) is the authority."""
        k = op["op"]
        r, r2 = op["r"], op["r2"]
        if k in ("get", "contains", "info"):
            key = pick(inside if r2 < 0.6 and inside else keys, r)
            if op["absent"]:
                return ("KeyError",) if k != "contains" else ("ok", False)
            v = F[key]
            if k == "contains":
                return ("ok", True)
            if k == "get":
                return ("ok", (v[0], v[1]))
            return ("ok", ("directory" if v[0] == "dir" else "file", v[1]))
        if k in ("fs_find", "view_fs_find"):
            return ("ok", sorted("/" + "/".join(kk) for kk in filekeys))
        if k == "fs_open":
            key = pick(filekeys, r)
            return ("ok", by_oid[F[key][1]])
        if k == "diff":
            return ("ok", [])
        return None

    for n, op in enumerate(sc["ops"]):
        if not filekeys and op["op"] == "fs_open":
            continue
        if op["op"] == "reopen":
            # a later process opens the same SQLite-backed index again
            if sc["cfg"]["sqlite"]:
                L.commit()
                L.close()
                L = DataIndex.open(w.p("idx", "L.db"))
                attach(L)
                ctx.probe("sqlite_reopened")
            continue
        if op["op"] == "evict_cached":
            # with cache + remote storage: another process' gc removes a file object from the cache; the remote
            # still holds it, so every later read has to be served from there
            if split:
                have = sorted(o for o in by_oid if os.path.exists(os.path.join(w.p("cache"), o[:2], o[2:])))
                victim = None
                if last_open[0] is not None and filekeys:
                    lk = pick(filekeys, last_open[0]["r"])
                    if F[lk][1] in have:
                        victim = F[lk][1]  # the object the adaptor served last
                if victim is None and have:
                    victim = pick(have, op["r"])
                if victim is not None:
                    w.raw_rm("cache", "local", victim)
                    ctx.probe("cached_file_object_evicted_between_reads")
                    if last_open[0] is not None:
                        # the same read again, through the same long-lived adaptors
                        for which, idx_ in (("lazy", L), ("explicit", E)):
                            try:
                                got = run(idx_, last_open[0], which)
                            except Exception as exc:  # noqa: BLE001
                                got = ("raised", type(exc).__name__)
                            if got != expect(last_open[0]):
                                ctx.violate("adaptor-differs-from-storage", f"fs_open:after-cache-eviction:{which}:{got[1] if got[0] == 'raised' else 'answer'}",
                                            f"op{n}: re-reading after the cache lost {model.short(victim)}: {str(got)[:120]}")
            continue
        if op["op"] == "crash_load":
            # another process starts loading directories of the SQLite-backed index and dies at its
            # k-th write to the index file; whatever it left must not change any later answer
            if sc["cfg"]["sqlite"]:
                import sys

                L.commit()
                L.close()
                sys.stdout.flush()
                sys.stderr.flush()
                pid = os.fork()
                if pid == 0:
                    try:
                        from sqltrie.sqlite.sqlite import SQLiteTrie

                        n_set = [0]
                        real_set = SQLiteTrie.__setitem__

                        def dying_set(self_, key, value):
                            n_set[0] += 1
                            if n_set[0] == op.get("k", 1):
                                os._exit(77)
                            return real_set(self_, key, value)

                        SQLiteTrie.__setitem__ = dying_set
                        C = DataIndex.open(w.p("idx", "L.db"))
                        attach(C)
                        how = op.get("how", "load")
                        dk = pick(sorted(dobjs), op["r"])
                        if how == "load":
                            C.load()
                        elif how == "iteritems":
                            list(C.iteritems())
                        elif how == "ls":
                            list(C.ls(dk, detail=False))
                        else:
                            C.info(dk + tuple(sorted(dobjs[dk][2])[0].split("/"))) if dobjs[dk][2] else C.info(dk)
                        C.commit()
                        C.close()
                    except BaseException:  # noqa: BLE001
                        os._exit(3)
                    os._exit(0)
                _, status = os.waitpid(pid, 0)
                code = os.waitstatus_to_exitcode(status)
                if code == 77:
                    ctx.probe("loader_process_died_mid_load")
                elif code != 0:
                    raise HarnessError(f"crash_load child failed with {code}")
                L = DataIndex.open(w.p("idx", "L.db"))
                attach(L)
            continue
        if op["op"] == "evict_restore":
            # the directory object is not in storage yet when first accessed (error
            # swallowed by the caller's onerror), and arrives afterwards (fetch)
            dk = pick(sorted(dobjs), op["r"])
            ent = L._trie.get(dk)
            if ent is not None and not ent.loaded:
                doid_, dbytes_, _ = dobjs[dk]
                w.raw_rm("cache", "local", doid_)
                prev_onerror = L.onerror
                L.onerror = lambda *a: None
                try:
                    list(L.ls(dk, detail=False))
                except Exception:  # noqa: BLE001
                    pass
                L.onerror = prev_onerror
                w.raw_add("cache", "local", doid_, dbytes_)
                ctx.probe("dir_object_arrived_after_first_access")
            continue
        if op["op"] == "fs_open" and not op.get("absent"):
            last_open[0] = op
        pre = is_loaded()
        try:
            gotL = run(L, op, "L")
        except Exception as exc:  # noqa: BLE001
            import traceback

            gotL = ("raised", type(exc).__name__, traceback.format_exc()[-500:])
        try:
            gotE = run(E, op, "E")
        except Exception as exc:  # noqa: BLE001
            gotE = ("raised", type(exc).__name__, repr(exc))
        post = is_loaded()
        if not pre:
            before_load = True
        if post and not pre:
            load_triggered = True
        want = expect(op)
        if want is not None and gotE[:2] != want[:2] and op["op"] in ("fs_open", "fs_find", "view_fs_find"):
            # the adaptor over the EXPLICIT index disagrees with the bytes / paths held in storage: that
            # is the property's last clause, not a modelling problem
            ctx.violate("adaptor-differs-from-storage", f"{op['op']}:explicit-index:{gotE[1] if gotE[0] == 'raised' else 'answer'}",
                        f"op{n} {op}: E={str(gotE)[:200]} model={str(want)[:120]}")
        elif want is not None and gotE[:2] != want[:2]:
            raise HarnessError(f"model disagrees with the EXPLICIT index on op{n} {op}: E={gotE!r} model={want!r}")
        k = op["op"]
        state = "unloaded" if not pre else "loaded"
        if k == "view":
            if gotE[0] == "ok" and (gotE[1] != gotE[3] or gotE[2] != gotE[3]):
                # "a filtered view exposes precisely the entries whose keys satisfy the filter" is claimed for
                # every index, the explicit one included (its directory entries carry directory hashes too)
                extra = [x for x in gotE[1] if x not in gotE[3]]
                ctx.violate("view-filter-inexact", f"explicit-index:{'extra' if extra else 'lacking'}",
                            f"op{n}: got {gotE[1][:6]} want {gotE[3][:6]}")
            if gotE[0] != "ok":
                raise HarnessError(f"explicit index raised on view op{n}: {gotE!r}")
            if gotL[0] != "ok":
                ctx.violate("lazy-view-raised", f"{gotL[0]}:prefix-in-unloaded-dir:{state}" if gotL[0] == "KeyError" else f"{gotL[1]}:{state}",
                            f"op{n} {op}: {gotL} (the explicit index yields {len(gotE[1])} entries)")
            else:
                if gotL[1] != gotL[3]:
                    extra = [x for x in gotL[1] if x not in gotL[3]]
                    lack = [x for x in gotL[3] if x not in gotL[1]]
                    ctx.violate("view-filter-inexact", f"first-iteration:{state}:{'extra' if extra else 'lacking'}",
                                f"op{n}: extra={extra[:4]} lacking={lack[:4]}")
                if gotL[2] != gotL[3]:
                    ctx.violate("view-filter-inexact", f"second-iteration:{state}", f"op{n}")
            continue
        if k == "load":
            if gotL[0] == "ok" and not gotL[2]:
                ctx.violate("load-not-idempotent", state, f"op{n}")
            if gotL[0] == "ok" and gotE[0] == "ok" and gotL[1] != gotE[1]:
                ctx.violate("lazy-differs-from-explicit", f"load:{state}", f"op{n}: L={gotL[1][:4]} E={gotE[1][:4]}")
            elif gotL[0] != "ok":
                ctx.violate("lazy-access-raised", f"load:{gotL[1]}", f"{gotL}")
            continue
        if gotL != gotE:
            if gotL[0] == "raised":
                ctx.violate("lazy-access-raised", f"{k}:{gotL[1]}:{state}", f"op{n} {op}: {gotL[2]}")
            else:
                ctx.violate("lazy-differs-from-explicit", f"{k}:{state}", f"op{n} {op}: L={str(gotL)[:300]} E={str(gotE)[:300]}")
    if sc["cfg"]["sqlite"]:
        L.close()
        E.close()
    ctx.nontrivial = before_load and load_triggered
