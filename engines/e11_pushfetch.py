"""E11 `pushfetch` — C18: collect -> push -> (empty caches) -> collect ->
fetch -> checkout through storage mappings with one or several prefixes,
a faulty first round and a clean retry.  DESIGN §5 C18.
"""

import os
import random

from simkit import gen, model
from simkit.harness import HarnessError, World

TIERS = {"C18": {"quick": 1200, "thorough": 10000}}
LEVEL = {"C18": "exploration"}
RULE = {
    "C18": "scenario = index of 1-3 outputs (directory objects, lazily loaded, or single files; "
    "shared contents) with a storage placement: one root prefix / one prefix per output "
    "(caches C1,C2 x remotes R1,R2; remotes = generic store on the local fs or SimRemoteFS, "
    "with or without remote index) / root prefix plus a nested prefix overriding one role "
    "(per-role fallback). Objects start in the cache the reference resolution designates. "
    "collect(push) -> push round 1 under upload_error / ack_lost / remote_down -> clean "
    "round 2 -> caches emptied -> fresh index -> collect -> fetch round 1 (optionally under "
    "get_error / remote_down) -> clean round -> compare/apply from cache. Oracle: each "
    "remote (then each cache) holds at least the objects of the entries that resolve to it "
    "and nothing unreachable; pushed+failed of a round == objects that had to move "
    "(non-nested placements); checkout == data. Non-trivial: (>=2 prefixes or a fault fired "
    "in round 1) and >=1 directory object moved; distinct = scenario digest.",
}


def generate(prop, rng):
    pool = gen.content_pool(rng, n=rng.randint(3, 6))
    nout = rng.randint(1, 3)
    outs = []
    names = ["data", "models", "sub/inner", "ü", "x"]
    for i in range(nout):
        key = rng.choice(names) + (str(i) if rng.random() < 0.5 else "_%d" % i)
        if rng.random() < 0.75:
            tree = gen.gen_tree(rng, range(len(pool)), max_files=rng.randint(1, 4), max_depth=2)
            outs.append({"key": key, "tree": tree})
        else:
            outs.append({"key": key, "file": rng.randrange(len(pool))})
    placement = gen.weighted(rng, [(3, "root"), (5, "per_output"), (3, "nested")])
    remote_kind = rng.choice(["remote", "remote", "generic"])
    cfg = {
        "placement": placement,
        "remote_kind": remote_kind,
        "remote_index": rng.random() < 0.6,
        "jobs": rng.choice([1, 2, None]),
        "reflink": gen.weighted(rng, [(6, "enotsup"), (2, "nocow"), (2, "cow")]),
        "tick_ns": 1_000_000,
        # how the mapping is registered: parents first through add_*, nested one-role
        # prefixes before their parent's roles, or StorageInfo records assigned directly
        "map_order": rng.choice(["root_first", "nested_first", "direct"]),
    }
    if placement == "per_output":
        cfg["assign"] = [[rng.choice(["C1", "C2"]), rng.choice(["R1", "R2"])] for _ in outs]
    elif placement == "nested":
        cfg["nested_out"] = rng.randrange(nout)
        cfg["nested_role"] = rng.choice(["cache", "remote"])
    push_fault = None
    if rng.random() < 0.6:
        push_fault = {"kind": rng.choice(["upload_error", "upload_error", "ack_lost", "remote_down", "dir_unreadable"]),
                      "nth": rng.randint(1, 5), "count": rng.randint(1, 2)}
    fetch_fault = None
    if rng.random() < 0.35:
        fetch_fault = {"kind": rng.choice(["get_error", "remote_down"]), "nth": rng.randint(1, 4), "count": rng.randint(1, 2)}
    cfg["dir_leftover"] = rng.randint(1, 9) if rng.random() < 0.2 else 0
    # round 7: an earlier push of ANOTHER directory (sharing files with this index) through the same remote and
    # its persisted index; the remote then loses that directory and its files before this index is pushed
    cfg["prehistory"] = {"share": rng.randint(1, 3)} if rng.random() < 0.35 else None
    return {"prop": prop, "cfg": cfg, "contents": [gen.enc(b) for b in pool], "outs": outs,
            "push_fault": push_fault, "fetch_fault": fetch_fault}


def valid(sc):
    n = len(sc["contents"])
    keys = [tuple(o["key"].split("/")) for o in sc["outs"]]
    if not keys or len(set(keys)) != len(keys):
        return False
    for a in keys:
        for b in keys:
            if a != b and b[: len(a)] == a:
                return False
    for o in sc["outs"]:
        if "tree" in o and (not o["tree"] or any(ci >= n for ci in o["tree"].values())):
            return False
        if "file" in o and o["file"] >= n:
            return False
    cfg = sc["cfg"]
    if cfg["placement"] == "per_output" and len(cfg.get("assign", [])) != len(keys):
        return False
    if cfg["placement"] == "nested" and cfg.get("nested_out", 0) >= len(keys):
        return False
    return True


def shrink_paths(sc):
    out = []
    for i, o in enumerate(sc["outs"]):
        if "tree" in o:
            out.append(("dict", ("outs", i, "tree")))
    return out


def simplify(sc):
    import copy

    for k in ("push_fault", "fetch_fault"):
        if sc.get(k):
            c = copy.deepcopy(sc)
            c[k] = None
            yield c
    simple = {"remote_index": False, "jobs": 1, "reflink": "enotsup", "remote_kind": "generic", "map_order": "root_first"}
    for k, v in simple.items():
        if sc["cfg"].get(k) != v:
            c = copy.deepcopy(sc)
            c["cfg"][k] = v
            yield c
    if len(sc["outs"]) > 1:
        for i in range(len(sc["outs"])):
            c = copy.deepcopy(sc)
            del c["outs"][i]
            if c["cfg"]["placement"] == "per_output":
                del c["cfg"]["assign"][i]
            if c["cfg"]["placement"] == "nested":
                if c["cfg"]["nested_out"] == i:
                    continue
                if c["cfg"]["nested_out"] > i:
                    c["cfg"]["nested_out"] -= 1
            yield c
    for i, cont in enumerate(sc["contents"]):
        want = gen.enc(b"c%d" % i)
        if cont != want:
            c = copy.deepcopy(sc)
            c["contents"][i] = want
            yield c


def execute(sc, ctx):
    if not valid(sc):
        raise HarnessError("scenario violates the engine's preconditions")
    from dvc_data.hashfile.hash_info import HashInfo
    from dvc_data.hashfile.meta import Meta
    from dvc_data.index import DataIndex, DataIndexEntry, ObjectStorage
    from dvc_data.index.checkout import apply, compare
    from dvc_data.index.collect import collect
    from dvc_data.index.fetch import fetch
    from dvc_data.index.push import push

    cfg = sc["cfg"]
    seam = ctx.seam
    w = World(ctx)
    contents = [gen.dec(c) for c in sc["contents"]]
    foid = [model.ref_digest("md5", b) for b in contents]
    by_oid = dict(zip(foid, contents))
    rkind = cfg["remote_kind"]
    w.mkdirs(w.p("tmp"))

    def cache_odb(name):
        return w.odb(name, "local", tmp_dir=w.p("tmp"))

    def remote_odb(name):
        conf = {"tmp_dir": w.p("tmp")} if cfg["remote_index"] else {}
        return w.odb(name, rkind, **conf)

    outs = []
    for o in sc["outs"]:
        key = tuple(o["key"].split("/"))
        if "tree" in o:
            ents = {rel: foid[ci] for rel, ci in o["tree"].items()}
            doid, dbytes = model.ref_dir(ents)
            objs = {doid: dbytes}
            objs.update({oid: by_oid[oid] for oid in ents.values()})
            outs.append({"key": key, "oid": doid, "objs": objs, "files": {rel: by_oid[x] for rel, x in ents.items()}, "isdir": True})
        else:
            oid = foid[o["file"]]
            outs.append({"key": key, "oid": oid, "objs": {oid: by_oid[oid]}, "files": {"": by_oid[oid]}, "isdir": False})

    # ---- storage placement and its reference resolution -------------------
    smap = {}  # prefix -> {"cache": name|None, "remote": name|None}
    if cfg["placement"] == "root":
        smap[()] = {"cache": "C1", "remote": "R1"}
    elif cfg["placement"] == "per_output":
        for o, (c, r) in zip(outs, cfg["assign"]):
            smap[o["key"]] = {"cache": c, "remote": r}
    else:
        smap[()] = {"cache": "C1", "remote": "R1"}
        no = outs[cfg["nested_out"]]
        smap[no["key"]] = {"cache": "C2" if cfg["nested_role"] == "cache" else None,
                           "remote": "R2" if cfg["nested_role"] == "remote" else None}

    def resolve(key, role, strict=True):
        """Longest-prefix resolution with per-role fallback."""
        best = None
        for p in sorted(smap, key=len, reverse=True):
            if key[: len(p)] == p and smap[p][role]:
                best = smap[p][role]
                break
        return best

    def all_resolving(key, role):
        """Every store that some prefix covering `key` resolves `role` to
        (collection walks every prefix's subtree, so nested entries are also
        collected for the enclosing prefix)."""
        out = set()
        for p in smap:
            if key[: len(p)] == p:
                r = resolve(p, role)
                if r:
                    out.add(r)
        return out

    caches = sorted({v["cache"] for v in smap.values() if v["cache"]})
    remotes = sorted({v["remote"] for v in smap.values() if v["remote"]})
    want_min = {"remote": {r: {} for r in remotes}, "cache": {c: {} for c in caches}}
    want_max = {"remote": {r: {} for r in remotes}, "cache": {c: {} for c in caches}}
    for o in outs:
        for role in ("remote", "cache"):
            want_min[role][resolve(o["key"], role)].update(o["objs"])
            for s in all_resolving(o["key"], role):
                want_max[role][s].update(o["objs"])
    nested = cfg["placement"] == "nested"
    for o in outs:
        c = resolve(o["key"], "cache")
        for oid, data in o["objs"].items():
            w.raw_add(c, "local", oid, data)
        # the enclosing prefix's cache also needs them when it differs (collection of the enclosing prefix)
        for c2 in all_resolving(o["key"], "cache"):
            if c2 != c:
                for oid, data in o["objs"].items():
                    w.raw_add(c2, "local", oid, data)

    def make_index():
        idx = DataIndex()
        for o in outs:
            if o["isdir"]:
                idx[o["key"]] = DataIndexEntry(key=o["key"], meta=Meta(isdir=True), hash_info=HashInfo("md5", o["oid"]))
            else:
                idx[o["key"]] = DataIndexEntry(key=o["key"], meta=Meta(size=len(o["objs"][o["oid"]])), hash_info=HashInfo("md5", o["oid"]))
            for i in range(1, len(o["key"])):
                p = o["key"][:i]
                if p not in idx:
                    idx[p] = DataIndexEntry(key=p, meta=Meta(isdir=True), loaded=True)
        order = cfg.get("map_order", "root_first")
        if order == "direct":
            from dvc_data.index import StorageInfo

            for p, v in smap.items():
                idx.storage_map[p] = StorageInfo(
                    cache=ObjectStorage(p, cache_odb(v["cache"])) if v["cache"] else None,
                    remote=ObjectStorage(p, remote_odb(v["remote"])) if v["remote"] else None,
                )
            return idx
        prefixes = sorted(smap, key=len, reverse=(order == "nested_first"))
        calls = []
        for p in prefixes:
            v = smap[p]
            if v["cache"]:
                calls.append(("cache", p, v["cache"]))
            if v["remote"]:
                calls.append(("remote", p, v["remote"]))
        if order == "nested_first":
            # all cache registrations first, remotes last (a nested cache-only prefix is
            # then registered before its parent's remote)
            calls.sort(key=lambda c: (c[0] != "cache", -len(c[1])))
        for role, p, name in calls:
            if role == "cache":
                idx.storage_map.add_cache(ObjectStorage(p, cache_odb(name)))
            else:
                idx.storage_map.add_remote(ObjectStorage(p, remote_odb(name)))
        return idx

    def listing(name, kind):
        return w.listing(name, kind)[0]

    def fault_rules(f, phase):
        if not f:
            return []
        k = f["kind"]
        if k == "remote_down":
            at = ("r_put", "r_query", "r_get") if rkind == "remote" else ("copy_create", "os_open_w")
            return [{"at": at, "match": None, "exc": "ConnectionError", "name": "remote_down", "count": 10**6}]
        if k == "dir_unreadable":
            # a directory object cannot be read from the cache while the index is being collected
            return [{"at": ("open_r",), "match": ".dir", "nth": 1, "exc": "EIO", "name": k, "count": 1}]
        if k == "upload_error":
            at = ("r_put",) if rkind == "remote" else ("copy_create", "os_open_w")
            return [{"at": at, "match": None, "nth": f["nth"], "exc": "EIO", "name": k, "count": f["count"]}]
        if k == "ack_lost":
            at = ("r_put_ack",) if rkind == "remote" else ("rename",)
            return [{"at": at, "match": None, "nth": f["nth"], "exc": "ConnectionError", "name": k, "count": f["count"]}]
        # a download fails before its first byte or half way through (partial local file)
        at = ("r_get", "r_get_mid") if rkind == "remote" else ("copy_create", "os_open_w")
        return [{"at": at, "match": None, "nth": f["nth"], "exc": "EIO", "name": k, "count": f["count"]}]

    same_remote_diff_cache = False
    seen = {}
    for p, v in smap.items():
        r, c = resolve(p, "remote"), resolve(p, "cache")
        if r in seen and seen[r] != c:
            same_remote_diff_cache = True
        seen.setdefault(r, c)
    pdisc = cfg["placement"] + (":same-remote-different-caches" if same_remote_diff_cache else "")

    pre = cfg.get("prehistory")
    # (only for an index with at least one directory output: the library validates its remote index through the
    # directory objects of the request - C12's "a stale index is cleared" - and a files-only request is answered
    # from the index as it is; out-of-band loss is not in C18's quantifier, so nothing is demanded there)
    if pre and cfg["placement"] == "root" and cfg["remote_index"] and any(o["isdir"] for o in outs):
        shared = sorted({oid for o in outs for oid in o["objs"] if not oid.endswith(".dir")})[: pre["share"]]
        own = b"only in the earlier directory"
        pents = {"p%d" % i: oid for i, oid in enumerate(shared)}
        pents["own"] = model.ref_digest("md5", own)
        pdoid, pdbytes = model.ref_dir(pents)
        pobjs = {pdoid: pdbytes, pents["own"]: own}
        pobjs.update({oid: by_oid[oid] for oid in shared})
        for oid, data in pobjs.items():
            w.raw_add("C1", "local", oid, data)
        pidx = DataIndex()
        pidx[("prev",)] = DataIndexEntry(key=("prev",), meta=Meta(isdir=True), hash_info=HashInfo("md5", pdoid))
        pidx.storage_map.add_cache(ObjectStorage((), cache_odb("C1")))
        pidx.storage_map.add_remote(ObjectStorage((), remote_odb("R1")))
        try:
            push(collect([pidx], "remote", push=True), jobs=cfg["jobs"])
        except Exception as exc:  # noqa: BLE001
            ctx.violate("push-raised", f"prehistory:{type(exc).__name__}", repr(exc))
            return
        for oid in pobjs:
            w.raw_rm("R1", rkind, oid)
        ctx.clock.advance(10**9)
        ctx.probe("remote_lost_an_indexed_directory_sharing_files")
    # ------------------------------------------------------------- push
    dir_moved = False
    for rnd in (1, 2):
        idx = make_index()
        before = {r: set(listing(r, rkind)) for r in remotes}
        seam.faults = fault_rules(sc.get("push_fault"), "push") if rnd == 1 else []
        fired0 = sum(seam.fired.values())
        try:
            idxs = collect([idx], "remote", push=True)
            pushed, failed = push(idxs, jobs=cfg["jobs"])
        except Exception as exc:  # noqa: BLE001
            seam.faults = []
            if rnd == 1 and sum(seam.fired.values()) > fired0:
                ctx.probe("push_round1_raised_under_fault")
                continue
            import traceback

            ctx.violate("push-raised", f"round{rnd}:{type(exc).__name__}", f"{exc!r}\n{traceback.format_exc()[-600:]}")
            return
        fired = sum(seam.fired.values()) - fired0
        seam.faults = []
        after = {r: set(listing(r, rkind)) for r in remotes}
        arrived = sum(len(after[r] - before[r]) for r in remotes)
        if any(o.endswith(".dir") for r in remotes for o in after[r] - before[r]):
            dir_moved = True
        if pushed > arrived:
            ctx.violate("pushed-count-exceeds-arrivals", f"round{rnd}:{'fault' if fired else 'clean'}",
                        f"push reported {pushed} objects pushed but only {arrived} new objects are in the remotes (failed={failed})")
        if not nested:
            had_to = sum(len(set(want_min["remote"][r]) - before[r]) for r in remotes)
            # an object shared by two (remote, cache) groups is attempted by both
            # when the first attempt failed, so under faults the identity only
            # holds when every object belongs to one group
            if pushed + failed != had_to and not (same_remote_diff_cache and fired):
                ctx.violate("push-counts", f"round{rnd}:{'fault' if fired else 'clean'}:{pdisc}",
                            f"pushed={pushed} failed={failed} but {had_to} objects had to move (arrived {arrived})")
            if not fired and failed:
                ctx.violate("push-failed-without-fault", f"round{rnd}", f"failed={failed}")
    for r in remotes:
        have = listing(r, rkind)
        lack = sorted(set(want_min["remote"][r]) - set(have))
        extra = sorted(set(have) - set(want_max["remote"][r]))
        if lack:
            ctx.violate("remote-incomplete-after-clean-push", pdisc, f"{r} lacks {[model.short(o) for o in lack]}")
        if extra:
            ctx.violate("remote-has-unmapped-objects", pdisc, f"{r} holds {[model.short(o) for o in extra]}")
        for o, data in have.items():
            if model.check_object(o, data) is not None:
                ctx.violate("remote-object-corrupt", "any", model.short(o))
    if any(v["sig"].startswith("C18/remote-incomplete") for v in ctx.violations):
        ctx.nontrivial = True
        return
    # ------------------------------------------------------------ fetch
    for c in caches:
        for o in list(listing(c, "local")):
            w.raw_rm(c, "local", o)
    if cfg.get("dir_leftover"):
        # an earlier fetch was killed in the reflink window of a directory object: an EMPTY unprotected file
        # sits under its name in the cache (the remote has the real one and must stand in for it)
        planted = False
        for c in caches:
            dirs = sorted(o for o in want_min["cache"][c] if o.endswith(".dir"))
            if dirs:
                w.raw_add(c, "local", dirs[cfg["dir_leftover"] % len(dirs)], b"", mode=0o644)
                planted = True
        if planted:
            ctx.probe("empty_dir_object_leftover_in_cache")
    for rnd in (1, 2):
        idx = make_index()
        # (an empty file under a directory object's name is the planted leftover, not a delivered object)
        before = {c: set(o for o, d_ in listing(c, "local").items() if not (o.endswith(".dir") and d_ == b"")) for c in caches}
        seam.faults = fault_rules(sc.get("fetch_fault"), "fetch") if rnd == 1 else []
        fired0 = sum(seam.fired.values())
        try:
            idxs = collect([idx], "remote")
            fetched, failed = fetch(idxs, jobs=cfg["jobs"])
        except Exception as exc:  # noqa: BLE001
            seam.faults = []
            if rnd == 1 and sum(seam.fired.values()) > fired0:
                ctx.probe("fetch_round1_raised_under_fault")
                continue
            import traceback

            ctx.violate("fetch-raised", f"round{rnd}:{type(exc).__name__}", f"{exc!r}\n{traceback.format_exc()[-600:]}")
            return
        fired = sum(seam.fired.values()) - fired0
        seam.faults = []
        if not nested and not same_remote_diff_cache:
            had_to = sum(len(set(want_min["cache"][c]) - before[c]) for c in caches)
            if fetched + failed != had_to and not fired:
                ctx.violate("fetch-counts", f"round{rnd}:clean", f"fetched={fetched} failed={failed} had_to_move={had_to}")
            if not fired and failed:
                ctx.violate("fetch-failed-without-fault", f"round{rnd}", f"failed={failed}")
    for c in caches:
        have = listing(c, "local")
        lack = sorted(set(want_min["cache"][c]) - set(have))
        extra = sorted(set(have) - set(want_max["cache"][c]))
        if lack:
            ctx.violate("cache-incomplete-after-clean-fetch", pdisc, f"{c} lacks {[model.short(o) for o in lack]}")
        if extra:
            ctx.violate("cache-has-unmapped-objects", pdisc, f"{c} holds {[model.short(o) for o in extra]}")
        for o, data in have.items():
            if model.check_object(o, data) is not None:
                ctx.violate("fetched-object-corrupt", "any", model.short(o))
    # --------------------------------------------------------- checkout
    if not ctx.violations:
        dest = w.p("co")
        w.mkdirs(dest)
        idx = make_index()
        errs = []
        try:
            diff = compare(None, idx)
            apply(diff, dest, w.localfs, storage="cache", onerror=lambda *a: errs.append(a), update_meta=False)
        except Exception as exc:  # noqa: BLE001
            ctx.violate("checkout-raised", type(exc).__name__, repr(exc))
        else:
            snap = model.files_of(model.snapshot(dest))
            want = {}
            for o in outs:
                base = "/".join(o["key"])
                for rel, data in o["files"].items():
                    want[base + ("/" + rel if rel else "")] = data
            if errs or snap != want:
                ctx.violate("checkout-differs", pdisc, f"errs={len(errs)} missing={sorted(set(want) - set(snap))} extra={sorted(set(snap) - set(want))}")
    fired_any = any(k in seam.fired for k in ("upload_error", "ack_lost", "remote_down", "get_error", "dir_unreadable"))
    ctx.nontrivial = (len(smap) >= 2 or fired_any) and dir_moved
    ctx.probe("placement_" + cfg["placement"])
