"""E12 `stream` — C14 (claimed narrowly): the simulated part is the STREAM.
A SimReader serves a byte string in PRNG-chosen short reads; the hashing
stream is consumed with PRNG-chosen read sizes, directly, through fobj_md5,
and through build(upload=True) onto SimRemoteFS, where the streamed digest
becomes the object's name.  The algorithm-name and dos2unix sub-claims ride
along as plain input sweeps.  DESIGN §5 C14.
"""

import hashlib
import random

from simkit import gen, model
from simkit.harness import HarnessError, World

TIERS = {"C14": {"quick": 1000, "thorough": 8000}}
LEVEL = {"C14": "exploration"}
RULE = {
    "C14": "scenario = content (sizes concentrated around 0, 511-513 bytes and the 1 MiB read "
    "size; text / binary / mixed / CRLF straddling boundaries / text head with binary tail) "
    "x seeds for the short-read sequence of the underlying stream and for the consumer's "
    "read sizes; routes per scenario: HashStreamFile for md5 / sha256 / blake3 / upper-case "
    "names consumed directly, fobj_md5 over a short-reading stream with several chunk "
    "sizes, build(upload=True) from a short-reading source filesystem onto SimRemoteFS "
    "consuming in random block sizes, legacy md5-dos2unix on CRLF/LF pairs and binaries. "
    "evaluations = streams executed; non-trivial = a stream with >=2 reads at least one of "
    "them short; distinct = (scenario digest, route).",
}
ASSUMPTIONS = {
    "C14": ["the algorithm-name and dos2unix sub-claims are input sweeps riding along; the simulation contributes the short-read / chunking dimension and the upload path"],
}


def _content(rng):
    kind = gen.weighted(rng, [(2, "tiny"), (3, "sniff"), (3, "read"), (2, "crlf"), (2, "head_tail"), (2, "rand"), (3, "ratio"),
                              (2, "late_crlf")])
    if kind == "late_crlf":
        # text whose first line break lies at or beyond the end of the 512-byte sniffing window
        n = rng.choice([510, 511, 512, 513, 600, 2000])
        return b"w" * n + b"\r\n" + rng.choice([b"", b"second line\r\nthird\r\n", b"x" * 700 + b"\r\n"])
    if kind == "ratio":
        # first 512 bytes with k non-text bytes around the 30% threshold (153.6), no NUL, CRLFs inside
        k = rng.choice([150, 152, 153, 154, 155, 156, 157, 158, 159, 160])
        n = rng.choice([512, 512, 600, 400])
        k = min(k, n)
        body = [b"\x01"] * k + [b"a"] * (n - k - 8) + [b"\r\n"] * 4
        rng.shuffle(body)
        return b"".join(body)[:n] + rng.choice([b"", b"tail\r\nmore\r\n"])
    if kind == "tiny":
        return rng.choice([b"", b"x", b"\n", b"\r\n", b"\r", b"\x00"])
    if kind == "sniff":
        n = rng.choice([510, 511, 512, 513, 514, 1023, 1024, 1025])
        unit = rng.choice([b"t", b"ab\r\n", b"\xff", b"a\x00"])
        return (unit * (n // len(unit) + 1))[:n]
    if kind == "read":
        n = 2**20 + rng.choice([-2, -1, 0, 1, 2, 513])
        unit = rng.choice([b"line of text\n", b"crlf line\r\n", b"\x00\x01\x02\x03"])
        return (unit * (n // len(unit) + 1))[:n]
    if kind == "crlf":
        lines = [b"l%d" % i for i in range(rng.randint(1, 200))]
        return b"\r\n".join(lines) + rng.choice([b"", b"\r\n", b"\r", b"\n"])
    if kind == "head_tail":
        head = (b"text line\r\n" * 60)[: rng.choice([512, 600, 700])]
        tail = rng.choice([b"\x00\x00binary\r\ntail\x00", b"\xff" * 400 + b"\r\n", b"more\r\ntext\r\n"])
        return head + tail
    return bytes(rng.randrange(256) for _ in range(rng.randint(1, 3000)))


def generate(prop, rng):
    data = _content(rng)
    if len(data) <= 4096:
        enc = gen.enc(data)
    else:
        # large contents are always unit*k + tail by construction; store compactly
        enc = {"hex_big": hashlib.sha256(data).hexdigest(), "seed": None}
        enc = {"raw_seed": rng.randrange(10**9)}
    sc = {"prop": prop, "cfg": {"reflink": "enotsup", "tick_ns": 1_000_000},
          "content_seed": None, "content": None, "short_seed": rng.randrange(10**9), "consume_seed": rng.randrange(10**9)}
    if "hex" in enc:
        sc["content"] = enc
    else:
        sc["content_seed"] = enc["raw_seed"]
    return sc


def _get_content(sc):
    if sc.get("content") is not None:
        return gen.dec(sc["content"])
    rng = random.Random(sc["content_seed"])
    while True:
        d = _content(rng)
        if len(d) > 4096:
            return d


def valid(sc):
    return sc.get("content") is not None or sc.get("content_seed") is not None


def simplify(sc):
    import copy

    d = _get_content(sc)
    if len(d) > 1:
        for cut in (len(d) // 2, len(d) - 1):
            if cut <= 4096:
                c = copy.deepcopy(sc)
                c["content"] = gen.enc(d[:cut])
                c["content_seed"] = None
                yield c


def execute(sc, ctx):
    if not valid(sc):
        raise HarnessError("scenario violates the engine's preconditions")
    from dvc_data.hashfile.build import build
    from dvc_data.hashfile.hash import Dos2UnixHashStreamFile, HashStreamFile, fobj_md5, get_hash_stream

    from simkit.remote import SimReader

    data = _get_content(sc)
    w = World(ctx)
    streams = 0
    nontrivial = 0
    srng = random.Random(sc["short_seed"])
    crng = random.Random(sc["consume_seed"])

    def consume(stream, sizes):
        out = []
        while True:
            if crng.random() < 0.2:
                stream.hash_value  # looking at the running digest must not disturb it
            n = crng.choice(sizes)
            b = stream.read(n)
            if not b:
                # a read(0) returns b"" without meaning EOF
                if n == 0:
                    continue
                break
            out.append(b)
        return b"".join(out)

    # ---- route 1: HashStreamFile consumed directly, all algorithms --------
    # every name hashlib offers is supported (hashlib.new fallback): two of those, chosen per scenario, ride along
    extra_names = sorted(n for n in hashlib.algorithms_available if n.lower() == n and not n.startswith("shake"))
    extra_names = crng.sample(extra_names, min(2, len(extra_names))) + (["md5-sha1"] if "md5-sha1" in hashlib.algorithms_available else [])
    for name in ["md5", "sha256", "blake3", "MD5", "SHA256", *extra_names]:
        src = SimReader(data, srng)
        hs = HashStreamFile(src, hash_name=name)
        got = consume(hs, [1, 3, 511, 512, 513, 4096, 2**20, -1])
        streams += 1
        if src.reads >= 2 and src.short_reads:
            nontrivial += 1
        want = model.ref_digest(name, data)
        if hs.hash_value != want:
            ctx.violate("stream-digest-wrong", f"HashStreamFile:{name.lower()}", f"len={len(data)} reads={src.reads} short={src.short_reads}")
        if got != data:
            ctx.violate("stream-bytes-altered", f"HashStreamFile:{name.lower()}", f"len {len(got)} vs {len(data)}")
        if hs.total_read != len(data):
            ctx.violate("stream-count-wrong", "HashStreamFile", f"total_read={hs.total_read} len={len(data)}")
    # ---- route 2: fobj_md5 over a short-reading stream ---------------------
    for chunk in (2**20, 4096, 512, 7):
        for name in ("md5", "sha256"):
            src = SimReader(data, srng)
            got = fobj_md5(src, chunk_size=chunk, name=name)
            streams += 1
            if src.reads >= 2 and src.short_reads:
                nontrivial += 1
            if got != model.ref_digest(name, data):
                ctx.violate("fobj-digest-wrong", f"chunk={chunk}:short-reads={'yes' if src.short_reads else 'no'}", f"{name} len={len(data)} reads={src.reads}")
    # ---- route 2b (round 7): a transient read error in the middle of a seekable source ------------
    # the call may fail; if it returns, its digest is the one a fault-free pass with the same chunking returns
    import errno as _errno

    class FlakyReader(SimReader):
        def __init__(self, d, nth):
            SimReader.__init__(self, d, srng, short=False)
            self.nth, self.failed = nth, 0

        def read(self, n=-1):
            if self.reads + 1 == self.nth and not self.failed:
                self.failed = 1
                raise OSError(_errno.EIO, "transient read error")
            return SimReader.read(self, n)

        def seekable(self):
            return True

        def seek(self, pos, whence=0):
            assert whence == 0
            self.pos = pos
            return pos

    crlf = data.replace(b"\r\n", b"\n").replace(b"\n", b"\r\n")
    cases = [(data, ch, "md5") for ch in (4096, 512, 7)]
    if crlf != data:
        cases += [(crlf, ch, "md5") for ch in (512, 7)]
    if crng.random() < 0.3 and 0 < len(crlf) <= 2**20:
        # the legacy stream only reads in chunks of 1 MiB or more: a text that needs a second chunk
        big = crlf * ((2**20 + 2**18) // len(crlf) + 1)
        cases.append((big, 2**20, "md5-dos2unix"))
    for d, chunk, name in cases:
        nth = 2 if chunk == 2**20 else crng.randint(2, 4)
        if len(d) <= chunk * (nth - 1):
            continue
        ref = fobj_md5(SimReader(d, srng, short=False), chunk_size=chunk, name=name)
        src = FlakyReader(d, nth)
        streams += 1
        try:
            got = fobj_md5(src, chunk_size=chunk, name=name)
        except OSError:
            ctx.probe("hashing_refused_after_transient_read_error")
            continue
        if src.failed:
            nontrivial += 1
            ctx.probe("hashing_returned_after_transient_read_error")
        if got != ref:
            ctx.violate("fobj-digest-wrong", f"after-transient-read-error:{name}", f"chunk={chunk} nth={nth} len={len(d)}")
    # ---- route 3: legacy md5-dos2unix (input sweep; one full read) ---------
    if len(data) <= 2**20:
        for variant, d in (("as-is", data), ("lf", data.replace(b"\r\n", b"\n")), ("crlf", data.replace(b"\r\n", b"\n").replace(b"\n", b"\r\n"))):
            if len(d) > 2**20:
                continue
            src = SimReader(d, srng, short=False)
            hs = get_hash_stream(src, name="md5-dos2unix")
            assert isinstance(hs, Dos2UnixHashStreamFile)
            if crng.random() < 0.5:
                hs.hash_value  # a look-up on the fresh stream
            out = []
            while True:
                b = hs.read(max(2**20, 512))
                if not b:
                    break
                out.append(b)
            streams += 1
            if b"".join(out) != d:
                ctx.violate("stream-bytes-altered", "dos2unix", variant)
            if hs.hash_value != model.ref_digest("md5-dos2unix", d):
                ctx.violate("dos2unix-digest-wrong", variant + (":binary-tail" if b"\x00" in d[512:] and b"\x00" not in d[:512] else ""),
                            f"len={len(d)}")
        # case variants of the legacy name select the legacy algorithm, like those of any other name
        for nm in ("MD5-DOS2UNIX", "Md5-Dos2Unix"):
            got = fobj_md5(SimReader(data, srng, short=False), name=nm)
            streams += 1
            if got != model.ref_digest("md5-dos2unix", data):
                ctx.violate("dos2unix-digest-wrong", "case-variant-of-the-name", f"{nm} len={len(data)}")
        # the legacy stream over a SHORT-reading source: its digest is only claimed for one full read,
        # but it must still hand on exactly the bytes it consumed
        src = SimReader(data, srng)
        hs = get_hash_stream(src, name="md5-dos2unix")
        out = []
        while True:
            b = hs.read(crng.choice([512, 513, 4096, 2**20]))
            if not b:
                break
            out.append(b)
        streams += 1
        if src.reads >= 2 and src.short_reads:
            nontrivial += 1
        if b"".join(out) != data:
            ctx.violate("stream-bytes-altered", "dos2unix:short-reads", f"len {len(b''.join(out))} vs {len(data)} reads={src.reads}")
        lf = data.replace(b"\r\n", b"\n")
        crlf = lf.replace(b"\n", b"\r\n")
        if len(crlf) <= 2**20 and model.is_text(lf[:512]) and model.is_text(crlf[:512]) and lf != crlf:
            a = fobj_md5(SimReader(lf, srng, short=False), name="md5-dos2unix")
            b = fobj_md5(SimReader(crlf, srng, short=False), name="md5-dos2unix")
            streams += 2
            if a != b:
                ctx.violate("dos2unix-crlf-lf-differ", "text-in-one-read", f"len lf={len(lf)}")
        if not model.is_text(data[:512]):
            got = fobj_md5(SimReader(data, srng, short=False), name="md5-dos2unix")
            streams += 1
            if got != hashlib.md5(data).hexdigest():  # noqa: S324
                ctx.violate("dos2unix-binary-touched", "binary", f"len={len(data)}")
    # ---- route 3b: hash_file() on a real file: without info (a progress callback gets attached)
    # and with caller-supplied info that carries the plain md5 (as index-backed filesystems do)
    if len(data) <= 2**20:
        import hashlib as _hl

        from dvc_data.hashfile.hash import hash_file

        fp = w.p("hf", "file")
        w.raw_write(fp, data)
        for name in ("md5", "md5-dos2unix", "sha256"):
            _, hi = hash_file(fp, w.localfs, name)
            streams += 1
            if hi.name != name or hi.value != model.ref_digest(name, data):
                ctx.violate("hash_file-digest-wrong", f"{name}:no-info", f"len={len(data)}")
        # file_md5 with a progress callback attached (what hash_file does for very large files): the
        # digests must not depend on how the callback path chunks its reads
        from fsspec.callbacks import Callback as _Cb

        from dvc_data.hashfile.hash import file_md5

        for name in ("md5", "md5-dos2unix", "sha256"):
            got = file_md5(fp, w.localfs, callback=_Cb(), name=name)
            streams += 1
            if got != model.ref_digest(name, data):
                ctx.violate("hash_file-digest-wrong", f"{name}:file_md5-with-callback", f"len={len(data)}")
        info = dict(w.localfs.info(fp))
        info["md5"] = _hl.md5(data).hexdigest()  # noqa: S324
        _, hi = hash_file(fp, w.localfs, "md5-dos2unix", info=info)
        streams += 1
        if hi.value != model.ref_digest("md5-dos2unix", data):
            ctx.violate("hash_file-digest-wrong", "md5-dos2unix:info-carries-plain-md5", f"len={len(data)}")
    # ---- route 3c: hash_file() with caller-supplied stat info that is STALE (the file grew after it was
    # listed): the digest is that of the bytes that are there, whatever size the caller believed
    if len(data) > 2**20:
        from dvc_data.hashfile.hash import hash_file

        fp = w.p("hf", "grown")
        w.raw_write(fp, data)
        for name in ("md5", "sha256"):
            info = dict(w.localfs.info(fp))
            info["size"] = 2**20 - crng.choice([1, 7, 4096])
            _, hi = hash_file(fp, w.localfs, name, info=info)
            streams += 1
            if hi.value != model.ref_digest(name, data):
                ctx.violate("hash_file-digest-wrong", f"{name}:stale-size-in-info", f"len={len(data)} believed={info['size']}")
    # ---- route 4: upload staging: the streamed digest names the object -----
    srcfs = w.remote_fs("src")
    srcfs.raw_put("/src/file", data)
    srcfs.short_read_rng = srng
    odb = w.odb("rs", "remote")
    w.remote_fs("rs").read_rng = crng
    try:
        staging, meta, obj = build(odb, "/src/file", srcfs, "md5", upload=True)
        streams += 1
        want = hashlib.md5(data).hexdigest()  # noqa: S324
        if obj.hash_info.value != want:
            ctx.violate("upload-digest-wrong", "build(upload=True)", f"{obj.hash_info.value} != {want} len={len(data)}")
        # the bytes that arrived under the temporary name are exactly the content
        stored = w.remote_fs("rs").fs.cat_file(obj.path)
        if stored != data:
            ctx.violate("upload-bytes-altered", "build(upload=True)", f"len {len(stored)} vs {len(data)}")
        if meta.size != len(data):
            ctx.violate("upload-size-wrong", "meta", f"{meta.size} vs {len(data)}")
    except Exception as exc:  # noqa: BLE001
        import traceback

        ctx.violate("upload-raised", type(exc).__name__, traceback.format_exc()[-600:])
    ctx.extra["subruns"] = streams
    ctx.extra["nontrivial_subruns"] = nontrivial
    ctx.nontrivial = nontrivial > 0
