"""SimExecutor (DESIGN §3.5): same surface as
dvc_objects.executors.ThreadPoolExecutor, but work runs inline on the caller's
thread and `imap_unordered` yields in a PRNG-chosen completion order."""

from concurrent import futures
from itertools import islice

_SEAM = None
STATS = {"pools": 0, "unordered_batches": 0, "reordered": 0}


def bind(seam):
    global _SEAM  # noqa: PLW0603
    _SEAM = seam


class SimExecutor:
    def __init__(self, max_workers=None, cancel_on_error=False, **kwargs):
        self._max_workers = max_workers or 4
        self._cancel_on_error = cancel_on_error
        STATS["pools"] += 1

    def __enter__(self):
        return self

    def __exit__(self, *a):
        return False

    def shutdown(self, wait=True, cancel_futures=False):
        pass

    def submit(self, fn, *args, **kwargs):
        fut = futures.Future()
        try:
            fut.set_result(fn(*args, **kwargs))
        except BaseException as exc:  # noqa: BLE001
            fut.set_exception(exc)
        return fut

    def map(self, fn, *iterables, timeout=None, chunksize=1):
        return iter([fn(*args) for args in zip(*iterables)])

    def imap_unordered(self, fn, *iterables):
        it = zip(*iterables)
        if self._max_workers == 1:
            for args in it:
                yield fn(*args)
            return
        rng = _SEAM.order_rng
        if _SEAM.pool_interleave and _SEAM.sched is None:
            yield from self._interleaved(fn, it, rng)
            return
        window = list(islice(it, self._max_workers * 5))
        while window:
            STATS["unordered_batches"] += 1
            # choose which in-flight task "completes" next
            i = rng.randrange(len(window))
            if i:
                STATS["reordered"] += 1
            args = window.pop(i)
            yield fn(*args)
            window.extend(islice(it, 1))


    def _interleaved(self, fn, it, rng):
        """Pool tasks as real threads under the baton scheduler: up to max_workers
        at a time, pre-empted at seam points (open / every chunk read); results are
        handed on in completion order."""
        import random

        from .sched import Policy, ThreadSched

        while True:
            batch = list(islice(it, self._max_workers))
            if not batch:
                return
            STATS["interleaved_batches"] = STATS.get("interleaved_batches", 0) + 1
            STATS["unordered_batches"] += 1
            finished = []

            def task(i, args):
                def run():
                    try:
                        return ("ok", fn(*args))
                    except BaseException as exc:  # noqa: BLE001
                        return ("exc", exc)
                    finally:
                        finished.append(i)

                return run

            sched = ThreadSched(_SEAM, Policy(random.Random(rng.getrandbits(32)), {"kind": rng.choice(["uniform", "sticky"]), "p_stay": 0.5}))
            prev_fine = _SEAM.fine_reads
            _SEAM.fine_reads = True
            try:
                sched.run({f"pool{i:02d}": task(i, args) for i, args in enumerate(batch)})
            finally:
                _SEAM.fine_reads = prev_fine
            STATS["pool_yields"] = STATS.get("pool_yields", 0) + sched.yields
            if sched.errors:
                raise RuntimeError(f"pool task died outside fn: {sched.errors}")
            for i in finished:
                kind, val = sched.results[f"pool{i:02d}"]
                if kind == "exc":
                    raise val
                yield val


def install(seam):
    bind(seam)
    import dvc_objects.fs.base as b
    import dvc_objects.fs.generic as g
    import dvc_objects.fs.utils as u

    import dvc_data.hashfile.build as hb
    import dvc_data.hashfile.db.migrate as hm

    for mod in (b, g, u, hb, hm):
        mod.ThreadPoolExecutor = SimExecutor
