"""SimExecutor (DESIGN §3.5): same surface as
dvc_objects.executors.ThreadPoolExecutor, but work runs inline on the caller's
thread and `imap_unordered` yields in a PRNG-chosen completion order."""

from concurrent import futures
from itertools import islice

_SEAM = None
STATS = {"pools": 0, "unordered_batches": 0, "reordered": 0}


def bind(seam):
    global _SEAM  # noqa: PLW0603
    _SEAM = seam


class SimExecutor:
    def __init__(self, max_workers=None, cancel_on_error=False, **kwargs):
        self._max_workers = max_workers or 4
        self._cancel_on_error = cancel_on_error
        STATS["pools"] += 1

    def __enter__(self):
        return self

    def __exit__(self, *a):
        return False

    def shutdown(self, wait=True, cancel_futures=False):
        pass

    def submit(self, fn, *args, **kwargs):
        fut = futures.Future()
        try:
            fut.set_result(fn(*args, **kwargs))
        except BaseException as exc:  # noqa: BLE001
            fut.set_exception(exc)
        return fut

    def map(self, fn, *iterables, timeout=None, chunksize=1):
        return iter([fn(*args) for args in zip(*iterables)])

    def imap_unordered(self, fn, *iterables):
        it = zip(*iterables)
        if self._max_workers == 1:
            for args in it:
                yield fn(*args)
            return
        rng = _SEAM.order_rng
        window = list(islice(it, self._max_workers * 5))
        while window:
            STATS["unordered_batches"] += 1
            # choose which in-flight task "completes" next
            i = rng.randrange(len(window))
            if i:
                STATS["reordered"] += 1
            args = window.pop(i)
            yield fn(*args)
            window.extend(islice(it, 1))


def install(seam):
    bind(seam)
    import dvc_objects.fs.base as b
    import dvc_objects.fs.generic as g
    import dvc_objects.fs.utils as u

    import dvc_data.hashfile.build as hb
    import dvc_data.hashfile.db.migrate as hm

    for mod in (b, g, u, hb, hm):
        mod.ThreadPoolExecutor = SimExecutor
