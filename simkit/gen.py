"""Scenario generation helpers: names, contents, trees.  Pure functions of the
`random.Random` passed in."""

import hashlib

NAMES = [
    "a", "b", "c", "ab", "a.b", "a b", "data", "data.csv", "d", "dir", "sub",
    "ü", "名", "é", "é", "Z", "_x", "a-b", "a+b", "0", "00", "x.dir",
    "foo", "foo.txt", "bar", "baz", "A", "ä", "z", "win\\style", "b\\",
]  # fmt: skip

DIRNAMES = ["d", "dir", "sub", "ü", "a", "b", "x.dir", "名", "A", "foo", "d e"]


def enc(b):
    if len(b) > 4096:
        # large contents are always `unit * k + tail`
        raise ValueError("use big() for large contents")
    return {"hex": b.hex()}


def big(unit, n, tail=b""):
    return {"unit": unit.hex(), "n": n, "tail": tail.hex()}


def dec(o):
    if "hex" in o:
        return bytes.fromhex(o["hex"])
    return bytes.fromhex(o["unit"]) * o["n"] + bytes.fromhex(o["tail"])


def _zero_prefixed(n):
    out, i = [], 0
    while len(out) < n:
        b = b"zp%d\n" % i
        if hashlib.md5(b).hexdigest().startswith("00"):  # noqa: S324
            out.append(b)
        i += 1
    return out


ZERO_PREFIXED = _zero_prefixed(24)

BASE_CONTENTS = [
    b"",
    b"x",
    b"\n",
    b"hello\n",
    b"hello\r\n",
    b"line1\nline2\n",
    b"line1\r\nline2\r\n",
    b"\x00\x01\x02binary\xff",
    b"bin\r\n\x00\r\n",
    b"t" * 511,
    b"t" * 512,
    b"t" * 513,
    b"t" * 510 + b"\r\n",
    b"t" * 511 + b"\r\n",
    b"\xe4\xf6\xfc" * 50 + b"abc" * 40,
    b"foo",
    b"bar",
    b"baz",
    b"{}",
    b"[]",
    b"[{\"md5\": \"x\", \"relpath\": \"y\"}]",
]


def content_pool(rng, n=8, zero=0, large=0):
    """Returns list of bytes with deliberate variety; caller indexes into it."""
    pool = rng.sample(BASE_CONTENTS, min(n, len(BASE_CONTENTS)))
    for _ in range(max(0, n - len(pool))):
        pool.append(b"r%d\n" % rng.randrange(10**6))
    pool.extend(rng.sample(ZERO_PREFIXED, zero))
    return pool


def uniq_content(rng, tag=b"u"):
    return tag + b"%d\n" % rng.randrange(10**9)


def gen_tree(rng, pool, max_files=8, max_depth=3, names=NAMES, dirnames=DIRNAMES):
    """{relpath: content-index}.  Never produces a path that is both a file and
    a directory prefix of another path."""
    nfiles = rng.randint(1, max_files)
    tree = {}
    dirs = {""}
    for _ in range(nfiles):
        for _try in range(8):
            depth = rng.choice([0, 0, 1, 1, 2, max_depth])
            depth = min(depth, max_depth)
            parts = [rng.choice(dirnames) for _ in range(depth)] + [rng.choice(names)]
            rel = "/".join(parts)
            # conflicts: rel is an existing dir, or a prefix of rel is a file
            if rel in dirs or rel in tree:
                continue
            pref_ok = True
            for i in range(1, len(parts)):
                if "/".join(parts[:i]) in tree:
                    pref_ok = False
                    break
            if not pref_ok:
                continue
            for i in range(1, len(parts)):
                dirs.add("/".join(parts[:i]))
            tree[rel] = rng.randrange(len(pool))
            break
    if not tree:
        tree[rng.choice(names)] = rng.randrange(len(pool))
    return tree


def tree_keys(tree):
    return {tuple(r.split("/")): c for r, c in tree.items()}


def weighted(rng, table):
    """table: [(weight, value)]"""
    tot = sum(w for w, _ in table)
    x = rng.random() * tot
    for w, v in table:
        x -= w
        if x < 0:
            return v
    return table[-1][1]
