"""Per-run context, world construction, and the fork-per-run executor."""

import hashlib
import importlib
import json
import os
import random
import signal
import stat
import sys
import time
import traceback
from collections import Counter

from . import model
from .seam import REAL, Seam, SimClock

SHM = "/dev/shm"

# property -> (engine module, level)
PROPS = {
    "C01": "engines.e01_storehist",
    "C02": "engines.e01_storehist",
    "C06": "engines.e01_storehist",
    "C03": "engines.e02_treeid",
    "C04": "engines.e03_xfer",
    "C11": "engines.e03_xfer",
    "C12": "engines.e03_xfer",
    "C05": "engines.e04_wshist",
    "C10": "engines.e04_wshist",
    "C07": "engines.e05_tamper",
    "C09": "engines.e06_idxco",
    "C13": "engines.e07_statehist",
    "C15": "engines.e08_crash",
    "C16": "engines.e09_conc",
    "C17": "engines.e10_lazyidx",
    "C18": "engines.e11_pushfetch",
    "C14": "engines.e12_stream",
}


PRELOAD = [
    "diskcache", "sqltrie", "pygtrie", "dictdiffer", "blake3", "pickletools", "sqlite3",
    "fsspec.implementations.local", "fsspec.implementations.memory",
    "dvc_objects.fs.local", "dvc_objects.fs.memory", "dvc_objects.fs.generic", "dvc_objects.db",
    "dvc_data.hashfile.cache", "dvc_data.hashfile.state", "dvc_data.hashfile.build",
    "dvc_data.hashfile.transfer", "dvc_data.hashfile.status", "dvc_data.hashfile.tree",
    "dvc_data.hashfile.checkout", "dvc_data.hashfile.gc", "dvc_data.hashfile.db.local",
    "dvc_data.hashfile.db.index", "dvc_data.hashfile.db.migrate", "dvc_data.hashfile._progress",
    "dvc_data.index", "dvc_data.index.checkout", "dvc_data.index.push", "dvc_data.index.fetch",
    "dvc_data.index.collect", "dvc_data.fs",
]  # fmt: skip


def engine_for(prop):
    return importlib.import_module(PROPS[prop])


def H(*parts):
    h = hashlib.sha256("/".join(str(p) for p in parts).encode()).digest()
    return int.from_bytes(h[:8], "big")


def hashseed_for(verif_seed, bucket):
    return H(verif_seed, "hashseed", bucket) % (2**32)


class HarnessError(Exception):
    pass


class Ctx:
    def __init__(self, scenario, root):
        self.scenario = scenario
        self.prop = scenario["prop"]
        self.seed = scenario["seed"]
        self.root = root
        cfg = scenario.get("cfg", {})
        self.cfg = cfg
        self.clock = SimClock(tick_ns=cfg.get("tick_ns", 1_000_000))
        self.seam = Seam(
            root,
            random.Random(f"{self.seed}/order"),
            clock=self.clock,
            reflink=cfg.get("reflink", "enotsup"),
            permute_listing=cfg.get("permute_listing", True),
        )
        self.violations = []
        self.probes = Counter()
        self.stats = Counter()
        self.nontrivial = False
        self.state_sig = None
        self.trace_override = None
        self.extra = {}

    def violate(self, oracle, disc, detail=""):
        sig = f"{self.prop}/{oracle}/{disc}"
        if not any(v["sig"] == sig for v in self.violations):
            self.violations.append({"sig": sig, "detail": str(detail)[:1500]})

    def probe(self, name, n=1):
        self.probes[name] += n

    def result(self):
        return {
            "violations": self.violations,
            "nontrivial": bool(self.nontrivial),
            "state_sig": self.state_sig,
            "fired": dict(self.seam.fired),
            "probes": dict(self.probes),
            "stats": dict(self.stats),
            "trace": self.trace_override or self.seam.trace_digest(),
            "points": self.seam.npoints,
            "sim_ns": self.clock.covered(),
            "extra": self.extra,
        }


# --------------------------------------------------------------------- world
class World:
    """Directory layout of one run (DESIGN §3.2) and raw (harness-side)
    manipulation of it.  Raw operations use the real os functions and are not
    seam points: they are "the user", "other clients", or test set-up."""

    def __init__(self, ctx, root=None):
        self.ctx = ctx
        self.root = root or ctx.root
        self.seam = ctx.seam
        self.remotes = {}
        self._fs = None
        self.persistent_remotes = False
        real_makedirs(self.root)

    def p(self, *parts):
        return os.path.join(self.root, *parts)

    @property
    def localfs(self):
        if self._fs is None:
            from dvc_objects.fs.local import LocalFileSystem

            self._fs = LocalFileSystem()
        return self._fs

    def mkdirs(self, path):
        real_makedirs(path)

    def raw_write(self, path, data, mode=None, stamp=True):
        self.mkdirs(os.path.dirname(path))
        with REAL["open"](path, "wb") as f:
            f.write(data)
        if mode is not None:
            REAL["os.chmod"](path, mode)
        if stamp:
            self.seam.stamp(path)

    def write_tree(self, base, tree, execs=()):
        """tree {relpath: bytes}"""
        self.mkdirs(base)
        for rel in sorted(tree):
            self.raw_write(
                os.path.join(base, rel), tree[rel], mode=0o755 if rel in execs else None
            )

    def raw_add_local(self, store_path, oid, data, mode=0o444):
        self.raw_write(os.path.join(store_path, oid[:2], oid[2:]), data, mode=mode)

    def raw_rm_local(self, store_path, oid):
        p = os.path.join(store_path, oid[:2], oid[2:])
        try:
            REAL["os.unlink"](p)
        except FileNotFoundError:
            pass

    def remote_fs(self, name):
        from .remote import SimRemoteFS

        if name not in self.remotes:
            backing = (self.root + ".remote") if self.persistent_remotes else None
            self.remotes[name] = SimRemoteFS(name, self.seam, backing=backing)
        return self.remotes[name]

    def odb(self, name, kind="local", state=None, **config):
        """kind: local (LocalHashFileDB), generic (HashFileDB on local fs),
        remote (HashFileDB on SimRemoteFS)"""
        from dvc_data.hashfile.db import HashFileDB
        from dvc_data.hashfile.db.local import LocalHashFileDB

        if state is not None:
            config["state"] = state
        if kind == "remote":
            fs = self.remote_fs(name)
            return HashFileDB(fs, "/" + name, **config)
        path = self.p(name)
        self.mkdirs(path)
        cls = LocalHashFileDB if kind == "local" else HashFileDB
        return cls(self.localfs, path, **config)

    def store_desc(self, name, kind):
        if kind == "remote":
            return {"kind": "remote", "path": "/" + name, "fs": self.remote_fs(name)}
        return {"kind": "local", "path": self.p(name)}

    def listing(self, name, kind):
        return model.store_listing(self.store_desc(name, kind))

    def raw_add(self, name, kind, oid, data, mode=0o444):
        if kind == "remote":
            self.remote_fs(name).raw_put(f"/{name}/{oid[:2]}/{oid[2:]}", data)
        else:
            self.raw_add_local(self.p(name), oid, data, mode=mode if kind == "local" else 0o644)

    def raw_rm(self, name, kind, oid):
        if kind == "remote":
            self.remote_fs(name).raw_rm(f"/{name}/{oid[:2]}/{oid[2:]}")
        else:
            self.raw_rm_local(self.p(name), oid)

    def state(self, name="tmp", root_dir=None):
        from dvc_data.hashfile.state import State

        tmp = self.p(name)
        self.mkdirs(tmp)
        return State(root_dir=root_dir or self.root, tmp_dir=tmp)


# ----------------------------------------------------------------- execution
def _install_common(ctx):
    from . import executor

    import importlib

    for mod in PRELOAD:
        importlib.import_module(mod)
    ctx.seam.install()
    executor.install(ctx.seam)
    from . import probes

    probes.install(ctx.probes)
    import logging

    logging.disable(logging.CRITICAL)


def execute_here(scenario, root):
    """Execute in this process (must be a fresh fork).  Returns result dict."""
    eng = engine_for(scenario["prop"])
    ctx = Ctx(scenario, root)
    _install_common(ctx)
    try:
        eng.execute(scenario, ctx)
        res = ctx.result()
    except HarnessError as exc:
        res = ctx.result()
        res["harness_error"] = f"{exc}"
    except BaseException:  # noqa: BLE001
        res = ctx.result()
        res["harness_error"] = traceback.format_exc()[-3000:]
    return res


_world_counter = 0


def new_root(tag=""):
    global _world_counter  # noqa: PLW0603
    _world_counter += 1
    root = os.path.join(SHM, f"simkit-{os.getpid()}-{_world_counter}{tag}")
    os.makedirs(root)
    return root


def rm_root(root):
    def onerr(func, p, exc):
        try:
            REAL["os.chmod"](os.path.dirname(p), 0o777)
            REAL["os.chmod"](p, 0o777)
            func(p)
        except OSError:
            pass

    REAL["shutil.rmtree"](root, onerror=onerr)
    for suffix in (".remote",):
        if os.path.exists(root + suffix):
            REAL["shutil.rmtree"](root + suffix, onerror=onerr)


def run_forked(scenario, timeout=120, keep_root=False):
    """Fork a child, execute the scenario there, return its result dict.
    A child that dies or times out yields {'harness_error': ...}."""
    root = new_root()
    r, w = os.pipe()
    sys.stdout.flush()
    sys.stderr.flush()
    pid = os.fork()
    if pid == 0:
        code = 0
        try:
            os.close(r)
            os.setpgid(0, 0)
            res = execute_here(scenario, root)
            data = json.dumps(res, default=str).encode()
            with os.fdopen(w, "wb") as f:
                f.write(data)
        except BaseException:  # noqa: BLE001
            traceback.print_exc()
            code = 3
        finally:
            os._exit(code)
    os.close(w)
    chunks = []
    deadline = time.monotonic() + timeout
    import select

    timed_out = False
    with os.fdopen(r, "rb") as f:
        while True:
            left = deadline - time.monotonic()
            if left <= 0:
                timed_out = True
                break
            rl, _, _ = select.select([f], [], [], min(left, 5))
            if rl:
                b = f.read1(1 << 20)
                if not b:
                    break
                chunks.append(b)
    if timed_out:
        try:
            os.killpg(pid, signal.SIGKILL)
        except OSError:
            pass
        try:
            os.kill(pid, signal.SIGKILL)
        except OSError:
            pass
    _, status = os.waitpid(pid, 0)
    if not keep_root:
        rm_root(root)
    if timed_out:
        return {"harness_error": f"HARNESS-TIMEOUT after {timeout}s", "violations": []}
    try:
        res = json.loads(b"".join(chunks).decode())
    except ValueError:
        return {
            "harness_error": f"HARNESS-CHILD-DIED status={status}",
            "violations": [],
        }
    return res


def real_makedirs(path):
    if os.path.isdir(path):
        return
    parent = os.path.dirname(path)
    if parent and parent != path:
        real_makedirs(parent)
    try:
        REAL["os.mkdir"](path)
    except FileExistsError:
        pass


def scenario_digest(scenario):
    s = {k: v for k, v in scenario.items() if k not in ("seed", "hashseed", "run")}
    return hashlib.sha256(json.dumps(s, sort_keys=True).encode()).hexdigest()[:16]


def file_mode(path):
    return stat.S_IMODE(REAL["os.lstat"](path).st_mode)
