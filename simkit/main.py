"""Master process: ./check run|replay|selftest ...   Never imports dvc_data."""

import argparse
import hashlib
import json
import os
import shutil
import subprocess
import sys
import tempfile
import time
from collections import Counter

from . import harness

VERIF = os.path.dirname(os.path.dirname(os.path.abspath(__file__)))
PY = sys.executable
NB = 16

ASSUMPTIONS = [
    "crash = process death (os._exit); no power-loss model: dvc-data never fsyncs",
    "SQLite (diskcache/sqltrie) and the tmpfs kernel implementation are trusted",
    "thread-pool tasks are reordered (PRNG completion order) in every engine and additionally run as "
    "pre-empted threads in C03 (pool_interleave); caller threads/processes and pool threads interleave "
    "at I/O boundaries only (seam points: every mutation, open, and - with fine_reads - before and "
    "after every chunk read), never inside pure computation",
    "SimRemoteFS has atomic puts (S3/GCS/Azure semantics)",
    "checks run as root: permission bits do not restrict the simulated user "
    "except in the explicit uid variant of C16",
    "sampling, not proof: a clean batch is evidence only",
]

COMPONENTS = {
    "real": [
        "all of dvc_data (from /repo/src working tree)",
        "dvc_objects ObjectDB / generic.transfer / LocalFileSystem / as_atomic",
        "fsspec local + memory filesystems",
        "diskcache + SQLite C library on real files",
        "sqltrie / pygtrie / dictdiffer",
        "Linux tmpfs for every local path operation",
    ],
    "stubbed": [
        "shutil.copyfile / shutil.rmtree (stepwise re-implementation over real syscalls)",
        "dvc_objects.fs.system.reflink (enotsup / nocow / cow variants)",
        "temp-name generator (deterministic counter)",
        "thread pools (SimExecutor: inline with PRNG completion order, or baton-scheduled threads)",
        "files opened for reading under a scheduler (_RFile proxy: chunk reads are pre-emption points)",
        "diskcache.Index.clear (fault point idx_clear for the persistent remote index)",
        "remote object store (SimRemoteFS)",
        "file timestamps (SimClock via utime)",
        "scandir/listdir order (PRNG permutation)",
        "user / other clients / process death (workload ops, os._exit in fork)",
    ],
}


def env_for(hashseed):
    e = dict(os.environ)
    e["PYTHONHASHSEED"] = str(hashseed)
    e["PYTHONPATH"] = os.environ.get("VERIF_REPO", "/repo") + "/src:" + VERIF
    e["PYTHONDONTWRITEBYTECODE"] = "1"
    e["DVC_DATA_VERIF"] = "1"
    return e


def load_known():
    p = os.path.join(VERIF, "known_findings.json")
    if not os.path.exists(p):
        return []
    return [f for f in json.load(open(p)).get("findings", []) if f.get("status") == "known"]


def run_workers(prop, seed, n, outdir, deadline=0.0, nb=NB, timeout=180.0, bucket_map=None, parallel=NB):
    procs = []
    running = []
    for b in range(nb):
        while len(running) >= parallel:
            running = [p for p in running if p.poll() is None]
            if len(running) >= parallel:
                time.sleep(0.05)
        hs = harness.hashseed_for(seed, b if bucket_map is None else bucket_map(b))
        out = os.path.join(outdir, f"res-{b}.jsonl")
        cmd = [
            PY, "-m", "simkit.worker", "--prop", prop, "--seed", str(seed),
            "--bucket", str(b), "--nb", str(nb), "--n", str(n), "--out", out,
            "--deadline", str(deadline), "--timeout", str(timeout),
        ]  # fmt: skip
        p = subprocess.Popen(cmd, env=env_for(hs), cwd=VERIF)
        running.append(p)
        procs.append((b, out, p))
    recs = []
    bad = []
    for b, out, p in procs:
        rc = p.wait()
        if rc != 0:
            bad.append(f"worker {b} exit {rc}")
        if os.path.exists(out):
            with open(out) as f:
                for line in f:
                    line = line.strip()
                    if line:
                        try:
                            recs.append(json.loads(line))
                        except ValueError:
                            bad.append(f"worker {b}: truncated result line")
    recs.sort(key=lambda r: r["i"])
    return recs, bad


def minimise_and_confirm(prop, sc, sig, tmpdir, budget):
    """Returns (replay_path, error)."""
    infile = os.path.join(tmpdir, "fail-%s.json" % hashlib.sha1(sig.encode()).hexdigest()[:8])
    with open(infile, "w") as f:
        json.dump(sc, f)
    sig8 = hashlib.sha1(sig.encode()).hexdigest()[:8]
    os.makedirs(os.path.join(VERIF, "replays"), exist_ok=True)
    out = os.path.join(VERIF, "replays", f"{prop}-{sig8}-{sc['seed']}.json")
    hs = sc.get("hashseed", 0)
    cmd = [PY, "-m", "simkit.minimise", infile, out, "--sig", sig, "--budget", str(budget)]
    r = subprocess.run(cmd, env=env_for(hs), cwd=VERIF, capture_output=True, text=True)
    if r.returncode != 0:
        return None, f"minimiser failed rc={r.returncode}: {r.stdout[-500:]} {r.stderr[-800:]}"
    # replay twice in fresh interpreters
    for _ in range(2):
        rc, txt = replay_file(out, quiet=True)
        if rc != 1:
            return None, f"replay of {out} did not reproduce (rc={rc}): {txt[-600:]}"
    return out, None


def replay_file(path, quiet=False):
    rp = json.load(open(path))
    hs = rp.get("hashseed", 0)
    cmd = [PY, "-m", "simkit.replay", path]
    r = subprocess.run(cmd, env=env_for(hs), cwd=VERIF, capture_output=True, text=True)
    if not quiet:
        sys.stdout.write(r.stdout)
        sys.stderr.write(r.stderr)
    return r.returncode, r.stdout + r.stderr


def cmd_run(a):
    prop = a.prop
    tier = a.tier or os.environ.get("VERIF_TIER") or "quick"
    seed = int(os.environ.get("VERIF_SEED", "0") or 0) if a.seed is None else a.seed
    eng = harness.engine_for(prop)
    n = a.runs or eng.TIERS[prop][tier]
    t0 = time.time()
    cap = a.wall or (900 if tier == "quick" else 1500)
    deadline = t0 + cap * 0.8
    tmpdir = tempfile.mkdtemp(prefix="simkit-master-", dir=harness.SHM)
    try:
        recs, bad = run_workers(prop, seed, n, tmpdir, deadline=deadline, timeout=a.timeout)
        rc = summarise(prop, tier, seed, eng, recs, bad, t0, tmpdir, a)
    finally:
        shutil.rmtree(tmpdir, ignore_errors=True)
        import re

        for d in os.listdir(harness.SHM):
            m = re.match(r"^simkit-(\d+)-\d+", d)
            if m and not os.path.exists(f"/proc/{m.group(1)}"):
                # world of a child that was SIGKILLed (its parent is gone too)
                shutil.rmtree(os.path.join(harness.SHM, d), ignore_errors=True)
    return rc


def summarise(prop, tier, seed, eng, recs, bad, t0, tmpdir, a):
    known = {f["signature"]: f for f in load_known() if f["property"] == prop}
    evaluations = 0
    nontrivial = {}
    fired, probes, stats = Counter(), Counter(), Counter()
    sim_ns = 0
    traces = set()
    state_sigs = set()
    samples = []
    harness_errors = list(bad)
    skipped = 0
    by_sig = {}
    wall_runs = 0.0
    for r in recs:
        if r.get("skipped"):
            skipped += 1
            continue
        res = r["res"]
        wall_runs += r.get("wall", 0)
        if res.get("harness_error"):
            harness_errors.append(f"run {r['i']}: {res['harness_error'][-700:]}")
        ex = res.get("extra", {})
        evaluations += ex.get("subruns", 1) or 1
        if res.get("nontrivial"):
            nontrivial[r["digest"]] = max(
                nontrivial.get(r["digest"], 0), ex.get("nontrivial_subruns", 1) or 1
            )
        fired.update(res.get("fired", {}))
        probes.update(res.get("probes", {}))
        stats.update(res.get("stats", {}))
        sim_ns += res.get("sim_ns", 0)
        if res.get("trace"):
            traces.add(res["trace"])
        if res.get("state_sig"):
            state_sigs.add(res["state_sig"])
        for v in res.get("violations", []):
            by_sig.setdefault(v["sig"], []).append((r, v))
        if "scenario" in r and len(samples) < 3 and res.get("nontrivial") and not res.get("violations"):
            samples.append(_shrink_sample(r["scenario"]))
    if not samples:
        for r in recs:
            if "scenario" in r:
                samples.append(_shrink_sample(r["scenario"]))
                break
    exit_code = 0
    lines = []
    nviol = 0
    from concurrent.futures import ThreadPoolExecutor

    todo = [s_ for s_ in sorted(by_sig) if s_ not in known][: a.max_minimise]
    with ThreadPoolExecutor(max_workers=8) as ex:
        futs = {
            s_: ex.submit(
                minimise_and_confirm, prop, by_sig[s_][0][0]["scenario"], s_, tmpdir, a.min_budget
            )
            for s_ in todo
        }
    minimised = {s_: f.result() for s_, f in futs.items()}
    # one KNOWN-FINDING line per listed finding of this property, whether or not
    # this run happened to hit it (they may need a rare schedule)
    by_finding = {}
    for sig, f in known.items():
        by_finding.setdefault(f.get("finding", sig), []).append(sig)
    for fid in sorted(by_finding):
        sigs_ = sorted(by_finding[fid])
        seen = {s_: len(by_sig[s_]) for s_ in sigs_ if s_ in by_sig}
        what = min((known[s_]["what"] for s_ in sigs_), key=len)
        lines.append(
            f"KNOWN-FINDING: property={prop} {fid}: {what[:600]} [signatures: {', '.join(sigs_)}; "
            f"observed in this run: {seen if seen else 'no'}]"
        )
    for sig in sorted(by_sig):
        hits = by_sig[sig]
        if sig in known:
            continue
        nviol += 1
        r, v = hits[0]
        if nviol > a.max_minimise:
            exit_code = 1
            if nviol <= a.max_minimise + 20:
                lines.append(f"VIOLATION property={prop} replay=- sig={sig} (not minimised; {len(hits)} runs)")
            elif nviol == a.max_minimise + 21:
                lines.append(f"VIOLATION property={prop} replay=- (further signatures not listed; see the evidence file)")
            continue
        replay, err = minimised[sig]
        if replay is None:
            harness_errors.append(f"{sig}: {err}")
            continue
        lines.append(f"VIOLATION property={prop} replay={replay}")
        lines.append(f"  signature={sig} runs={len(hits)} first_run={r['i']} detail={v['detail'][:400]}")
        exit_code = 1
    wall = time.time() - t0
    level = eng.LEVEL[prop]
    cov = {
        "evaluations": evaluations,
        "distinct_nontrivial": sum(nontrivial.values()),
        "rule": eng.RULE[prop],
        "samples": samples,
        "scenarios": len(recs) - skipped,
        "skipped_by_wall_cap": skipped,
        "runs_per_hour": int(evaluations / wall * 3600) if wall > 0 else 0,
        "simulated_time_s": round(sim_ns / 1e9, 3),
        "seam_points": stats.get("points_total", 0) or sum(
            r["res"].get("points", 0) for r in recs if not r.get("skipped")
        ),
        "fault_fired": dict(sorted(fired.items())),
        "probes": dict(sorted(probes.items())),
        "stats": dict(sorted(stats.items())),
        "distinct_trace_digests": len(traces),
        "distinct_state_signatures": len(state_sigs),
        "components": COMPONENTS,
        "known_findings_seen": sorted(s for s in by_sig if s in known),
        "hashseed_buckets": NB,
    }
    if level == "fault_enumeration":
        cov["exhaustive"] = False
        cov["explanation"] = (
            "within each sampled scenario the stated fault space is enumerated "
            "completely; scenarios are sampled by seed"
        )
    extra_cov = getattr(eng, "extra_coverage", None)
    if extra_cov:
        cov.update(extra_cov(prop, recs))
    ev = {
        "property_id": prop,
        "tier": tier,
        "seed": seed,
        "level": level,
        "coverage": cov,
        "assumptions": ASSUMPTIONS + list(getattr(eng, "ASSUMPTIONS", {}).get(prop, [])),
        "wall_s": round(wall, 2),
        "violations": nviol,
    }
    if not a.no_evidence:
        os.makedirs(os.path.join(VERIF, "evidence"), exist_ok=True)
        with open(os.path.join(VERIF, "evidence", f"{prop}.json"), "w") as f:
            json.dump(ev, f, indent=1, sort_keys=True, default=str)
    for ln in lines:
        print(ln)
    print(
        f"{prop} tier={tier} seed={seed}: scenarios={len(recs) - skipped} evaluations={evaluations} "
        f"nontrivial={sum(nontrivial.values())} violations={nviol} known={len([s for s in by_sig if s in known])} "
        f"wall={wall:.1f}s fired={dict(fired)}"
    )
    if harness_errors:
        for h in harness_errors[:10]:
            print("HARNESS-ERROR " + h.replace("\n", " | ")[:1500])
        return 2 if exit_code == 0 else exit_code
    if evaluations == 0:
        print("HARNESS-ERROR nothing executed")
        return 2
    return exit_code


def _shrink_sample(sc):
    s = json.loads(json.dumps(sc))
    txt = json.dumps(s)
    if len(txt) > 6000:
        for k in ("contents",):
            if k in s:
                s[k] = f"<{len(s[k])} contents elided>"
    return s


def cmd_replay(a):
    rc, _ = replay_file(a.file)
    return rc


def cmd_selftest(a):
    from . import selftest

    return selftest.main(a)


def main(argv=None):
    ap = argparse.ArgumentParser(prog="check")
    sub = ap.add_subparsers(dest="cmd", required=True)
    r = sub.add_parser("run")
    r.add_argument("prop")
    r.add_argument("--tier", default=None)
    r.add_argument("--runs", type=int, default=0)
    r.add_argument("--seed", type=int, default=None)
    r.add_argument("--wall", type=float, default=0)
    r.add_argument("--timeout", type=float, default=240.0)
    r.add_argument("--max-minimise", type=int, default=4)
    r.add_argument("--min-budget", type=float, default=150)
    r.add_argument("--no-evidence", action="store_true")
    p = sub.add_parser("replay")
    p.add_argument("file")
    s = sub.add_parser("selftest")
    s.add_argument("what", choices=["determinism", "sensitivity", "setup", "benign"])
    s.add_argument("props", nargs="*")
    s.add_argument("--runs", type=int, default=200)
    a = ap.parse_args(argv)
    if a.cmd == "run":
        return cmd_run(a)
    if a.cmd == "replay":
        return cmd_replay(a)
    return cmd_selftest(a)


if __name__ == "__main__":
    sys.exit(main())
