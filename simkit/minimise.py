"""Delta-debugging minimiser (DESIGN §3.9).  Runs in an interpreter whose
PYTHONHASHSEED equals the failing run's; every candidate executes in a fresh
forked child; a candidate is accepted only if the same signature recurs."""

import argparse
import copy
import json
import sys
import time

from . import harness


def _get(sc, path):
    cur = sc
    for p in path:
        cur = cur[p]
    return cur


def _set(sc, path, val):
    cur = sc
    for p in path[:-1]:
        cur = cur[p]
    cur[path[-1]] = val


def fails(sc, sig, timeout=120):
    res = harness.run_forked(sc, timeout=timeout)
    return any(v["sig"] == sig for v in res.get("violations", [])), res


def _list_candidates(sc, path):
    try:
        lst = _get(sc, path)
    except (KeyError, IndexError, TypeError):
        return
    if not isinstance(lst, list) or not lst:
        return
    n = len(lst)
    chunk = n // 2
    while chunk >= 1:
        for start in range(0, n, chunk):
            c = copy.deepcopy(sc)
            new = lst[:start] + lst[start + chunk :]
            _set(c, path, new)
            yield c
        if chunk == 1:
            break
        chunk //= 2


def _dict_candidates(sc, path):
    try:
        d = _get(sc, path)
    except (KeyError, IndexError, TypeError):
        return
    if not isinstance(d, dict):
        return
    for k in sorted(d):
        c = copy.deepcopy(sc)
        del _get(c, path)[k]
        yield c


def size_of(sc):
    return len(json.dumps(sc, sort_keys=True))


def minimise(sc, sig, budget_s=240, log=None):
    eng = harness.engine_for(sc["prop"])
    t0 = time.time()
    ok, res = fails(sc, sig)
    if not ok:
        return None, "original does not reproduce"
    narrow = res.get("extra", {}).get("narrow")
    if narrow:
        c = copy.deepcopy(sc)
        c.update(copy.deepcopy(narrow))
        if (getattr(eng, "valid", None) or (lambda s: True))(c) and fails(c, sig)[0]:
            sc = c
    shrink_paths = getattr(eng, "shrink_paths", None)
    simplify = getattr(eng, "simplify", None)
    valid = getattr(eng, "valid", None) or (lambda s: True)
    progress = True
    tried = 0
    while progress and time.time() - t0 < budget_s:
        progress = False
        cands = []
        if shrink_paths:
            for kind, path in shrink_paths(sc):
                gen = _list_candidates if kind == "list" else _dict_candidates
                cands.append(gen(sc, path))
        if simplify:
            cands.append(simplify(sc))
        for g in cands:
            for c in g:
                if time.time() - t0 > budget_s:
                    break
                if size_of(c) >= size_of(sc) and g is not cands[-1]:
                    continue
                if not valid(c):
                    continue
                tried += 1
                if fails(c, sig)[0]:
                    sc = c
                    progress = True
                    break
            if progress:
                break
    if log:
        log(f"minimise: {tried} candidates tried, {time.time() - t0:.1f}s")
    return sc, None


def main(argv=None):
    ap = argparse.ArgumentParser()
    ap.add_argument("infile")
    ap.add_argument("outfile")
    ap.add_argument("--sig", required=True)
    ap.add_argument("--budget", type=float, default=240)
    a = ap.parse_args(argv)
    sc = json.load(open(a.infile))
    out, err = minimise(sc, a.sig, a.budget, log=lambda s: print(s, flush=True))
    if out is None:
        print("HARNESS-ERROR " + err, flush=True)
        return 2
    ok, res = fails(out, a.sig)
    assert ok
    v = next(v for v in res["violations"] if v["sig"] == a.sig)
    replay = {
        "property": out["prop"],
        "signature": a.sig,
        "detail": v["detail"],
        "trace_digest": res["trace"],
        "hashseed": out.get("hashseed", 0),
        "scenario": out,
    }
    with open(a.outfile, "w") as f:
        json.dump(replay, f, indent=1, sort_keys=True)
    return 0


if __name__ == "__main__":
    sys.exit(main())
