"""Reference models and audits (DESIGN §4).  Written from the on-disk format,
never calling the code under test for digests.  Raw reads use the unpatched
os functions."""

import hashlib
import json
import os
import stat

from .seam import REAL

TEXT_CHARS = bytes(range(32, 127)) + b"\n\r\t\f\b"


def is_text(block):
    if not block:
        return True
    if b"\x00" in block:
        return False
    non = block.translate(None, TEXT_CHARS)
    return len(non) / len(block) <= 0.30


def ref_digest(name, data):
    name = name.lower()
    if name == "md5-dos2unix":
        assert len(data) <= 2**20
        if is_text(data[:512]):
            data = data.replace(b"\r\n", b"\n")
        return hashlib.md5(data).hexdigest()  # noqa: S324
    if name == "blake3":
        import blake3

        return blake3.blake3(data).hexdigest()
    return hashlib.new(name, data).hexdigest()


def ref_dir_bytes(entries, hash_key="md5"):
    """entries: {key-tuple or relpath: oid}"""
    lst = []
    for k, oid in entries.items():
        rel = "/".join(k) if isinstance(k, (tuple, list)) else k
        lst.append({hash_key: oid, "relpath": rel})
    lst.sort(key=lambda d: d["relpath"])
    return json.dumps(lst, sort_keys=True).encode("utf-8")


def ref_dir(entries, name="md5"):
    b = ref_dir_bytes(entries)
    return hashlib.md5(b).hexdigest() + ".dir", b  # noqa: S324


def is_tmp_name(fname):
    return fname.endswith(".tmp") or fname.startswith(".")


def raw_store_listing(path, with_mode=False):
    """{oid: bytes} for a store directory on the local fs, straight from the
    kernel.  Temporary names are returned separately."""
    objs, tmps, modes = {}, [], {}
    try:
        with REAL["os.scandir"](path) as it:
            d1 = sorted(e.name for e in it if e.is_dir(follow_symlinks=False))
    except FileNotFoundError:
        return ({}, [], {}) if with_mode else ({}, [])
    for d in d1:
        if len(d) != 2:
            continue
        dp = os.path.join(path, d)
        with REAL["os.scandir"](dp) as it:
            names = sorted(e.name for e in it if not e.is_dir(follow_symlinks=False))
        for n in names:
            fp = os.path.join(dp, n)
            if is_tmp_name(n):
                tmps.append(d + "/" + n)
                continue
            try:
                with REAL["open"](fp, "rb") as f:
                    objs[d + n] = f.read()
                modes[d + n] = stat.S_IMODE(REAL["os.lstat"](fp).st_mode)
            except FileNotFoundError:
                pass
    if with_mode:
        return objs, tmps, modes
    return objs, tmps


def store_listing(store):
    """store: dict(kind='local'|'remote', path=..., fs=SimRemoteFS|None)"""
    if store["kind"] == "remote":
        raw = store["fs"].raw_listing(store["path"])
        objs, tmps = {}, []
        for rel, data in raw.items():
            parts = rel.split("/")
            if len(parts) == 2 and len(parts[0]) == 2 and not is_tmp_name(parts[1]):
                objs[parts[0] + parts[1]] = data
            else:
                tmps.append(rel)
        return objs, tmps
    return raw_store_listing(store["path"])


def check_object(oid, data, hash_name="md5"):
    """None if `data` is correctly filed under `oid`, else a reason string."""
    if oid.endswith(".dir"):
        base = oid[: -len(".dir")]
        if hashlib.md5(data).hexdigest() != base:  # noqa: S324
            return "dir-digest-mismatch"
        try:
            lst = json.loads(data.decode("utf-8"))
        except ValueError:
            return "dir-not-json"
        if not isinstance(lst, list):
            return "dir-not-list"
        try:
            canon = json.dumps(
                sorted(lst, key=lambda d: d["relpath"]), sort_keys=True
            ).encode("utf-8")
        except (KeyError, TypeError):
            return "dir-bad-entries"
        if canon != data:
            return "dir-not-canonical"
        return None
    if ref_digest(hash_name, data) != oid:
        return "file-digest-mismatch"
    return None


def parse_dir(data):
    try:
        lst = json.loads(data.decode("utf-8"))
        return {d["relpath"]: d.get("md5") for d in lst}
    except (ValueError, KeyError, TypeError, AttributeError):
        return None


def closure_violations(objs):
    """objs {oid: bytes}.  Returns list of (dir_oid, missing_child_oid)."""
    out = []
    for oid, data in objs.items():
        if not oid.endswith(".dir"):
            continue
        if check_object(oid, data) is not None:
            continue
        ents = parse_dir(data) or {}
        for rel, child in sorted(ents.items()):
            if child not in objs:
                out.append((oid, child))
    return out


def snapshot(path):
    """{relpath: (kind, bytes|target, exec-bit)} of a workspace directory."""
    out = {}
    path = path.rstrip("/")

    def rec(d, rel):
        try:
            with REAL["os.scandir"](d) as it:
                ents = sorted(it, key=lambda e: e.name)
        except (FileNotFoundError, NotADirectoryError):
            return
        for e in ents:
            r = f"{rel}/{e.name}" if rel else e.name
            full = os.path.join(d, e.name)
            if e.is_symlink():
                tgt = os.readlink(full)
                try:
                    with REAL["open"](full, "rb") as f:
                        data = f.read()
                except OSError:
                    data = None
                out[r] = ("symlink", data, tgt)
            elif e.is_dir(follow_symlinks=False):
                out[r] = ("dir", None, None)
                rec(full, r)
            else:
                st = REAL["os.lstat"](full)
                with REAL["open"](full, "rb") as f:
                    data = f.read()
                out[r] = ("file", data, bool(st.st_mode & 0o111))

    st = None
    try:
        st = REAL["os.lstat"](path)
    except FileNotFoundError:
        return None
    if stat.S_ISDIR(st.st_mode):
        rec(path, "")
        return out
    if stat.S_ISLNK(st.st_mode):
        try:
            with REAL["open"](path, "rb") as f:
                data = f.read()
        except OSError:
            data = None  # dangling (or a link to a directory): holds no bytes of its own
        return {"": ("symlink", data, os.readlink(path))}
    with REAL["open"](path, "rb") as f:
        return {"": ("file", f.read(), bool(st.st_mode & 0o111))}


def files_of(snap):
    """{relpath: bytes} for regular files and symlinks (resolved)."""
    if snap is None:
        return {}
    return {r: v[1] for r, v in snap.items() if v[0] in ("file", "symlink")}


def short(oid):
    return oid[:6] + (".dir" if oid.endswith(".dir") else "")
