"""Reach probes (DESIGN §3.11): count how often anchored statements of the code
under test execute, via Python 3.12 `sys.monitoring` LINE events enabled only
on the code objects that contain them.  A probe is located at run time by
(module, source-text fragment), so it survives line shifts; a fragment that
cannot be found is reported as `code:<name>:UNRESOLVED`, never fatal."""

import importlib
import inspect
import sys
import types

SPECS = [
    # name, module, fragment of the statement
    ("dir_withheld_file_failed", "dvc_data.hashfile.transfer", "failed to upload full contents of"),
    ("dir_withheld_missing_both", "dvc_data.hashfile.transfer", "contains missing files, skipping .dir file upload"),
    ("transfer_src_index_cleared", "dvc_data.hashfile.transfer", "src_index.clear()"),
    ("transfer_dest_index_updated", "dvc_data.hashfile.transfer", "dest_index.update([dir_obj.hash_info.value], file_hashes)"),
    ("transfer_permission_error_exists", "dvc_data.hashfile.transfer", "already exists in the destination, skipping"),
    ("status_index_cleared", "dvc_data.hashfile.status", "index.clear()"),
    ("status_index_shortcut_dir_assumed", "dvc_data.hashfile.status", "index.update([dir_hash], file_hashes)"),
    ("status_memfs_shortcut", "dvc_data.hashfile.status", "return StatusResult(set(hash_infos.values()), set())"),
    ("state_hit", "dvc_data.hashfile.state", "return meta, hash_info"),
    ("state_newer_version_ignored", "dvc_data.hashfile.state", "if version is not None and version > self.HASH_VERSION:"),
    ("parallel_hashing_pool", "dvc_data.hashfile.build", "yield from executor.imap_unordered(_hash, large_files)"),
    ("checkout_prompt_error", "dvc_data.hashfile.checkout", "raise PromptError(path)"),
    ("checkout_unprotect_copy", "dvc_data.hashfile.checkout", "cache.unprotect(path)"),
    ("checkout_workspace_unreadable_refused", "dvc_data.hashfile.checkout", "if not force and fs.exists(path):"),
    ("local_check_protected_trusted", "dvc_data.hashfile.db.local", "return Meta.from_info(info)"),
    ("check_corrupt_removed", "dvc_data.hashfile.db", "self.fs.remove(obj.path)"),
    ("add_verify_failed_reported", "dvc_data.hashfile.db", "on_error(o, exc)"),
    ("gc_expand_used_dir", "dvc_data.hashfile.gc", "used_hashes.update(oid.value for _, _, oid in tree)"),
    ("index_lazy_load_object_storage", "dvc_data.index.index", "_load_from_object_storage(trie, entry, storage)"),
    ("index_dir_load_failed", "dvc_data.index.index", "self.onerror(entry, exc)"),
    ("idx_checkout_symlink_source_missing", "dvc_data.index.checkout", "onerror(src_path, dest_path, exc)"),
    ("odb_exists_strategy", "dvc_objects.db", "remaining_oids = oids - remote_oids"),
    ("odb_traverse_strategy", "dvc_objects.db", '"Querying %r oids via traverse"'),
    ("generic_target_exists_ignored", "dvc_objects.fs.generic", "file already exists, skipping"),
]

TOOL = 3


def _codes(obj, seen):
    """All code objects reachable from a module (functions, methods, nested)."""
    out = []

    def walk_code(co):
        if co in seen:
            return
        seen.add(co)
        out.append(co)
        for c in co.co_consts:
            if isinstance(c, types.CodeType):
                walk_code(c)

    for _, v in list(vars(obj).items()):
        f = v
        if isinstance(f, (staticmethod, classmethod)):
            f = f.__func__
        if isinstance(f, property):
            for g in (f.fget, f.fset):
                if g is not None and hasattr(g, "__code__"):
                    walk_code(g.__code__)
        elif inspect.isfunction(f):
            if getattr(f, "__module__", None) == getattr(obj, "__name__", getattr(obj, "__module__", None)) or inspect.isclass(obj):
                walk_code(f.__code__)
        elif inspect.isclass(f) and f.__module__ == getattr(obj, "__name__", None):
            out.extend(_codes(f, seen))
    return out


def install(counter):
    mon = getattr(sys, "monitoring", None)
    if mon is None:
        return
    try:
        mon.use_tool_id(TOOL, "simkit-probes")
    except ValueError:
        return  # already installed in this process
    wanted = {}
    by_mod = {}
    for name, modname, frag in SPECS:
        by_mod.setdefault(modname, []).append((name, frag))
    for modname, specs in by_mod.items():
        try:
            mod = importlib.import_module(modname)
            src = inspect.getsource(mod).splitlines()
        except Exception:  # noqa: BLE001
            for name, _ in specs:
                counter[f"code:{name}:UNRESOLVED"] += 1
            continue
        codes = _codes(mod, set())
        for name, frag in specs:
            lines = [i + 1 for i, ln in enumerate(src) if frag in ln]
            found = False
            for ln in lines:
                for co in codes:
                    if co.co_filename == mod.__file__ and any(l == ln for _, _, l in co.co_lines()):
                        wanted[(co, ln)] = name
                        found = True
                        break
                if found:
                    break
            if not found:
                counter[f"code:{name}:UNRESOLVED"] += 1

    def on_line(code, line):
        name = wanted.get((code, line))
        if name is None:
            return mon.DISABLE
        counter["code:" + name] += 1
        return None

    mon.register_callback(TOOL, mon.events.LINE, on_line)
    for co in {co for co, _ in wanted}:
        mon.set_local_events(TOOL, co, mon.events.LINE)
