"""SimRemoteFS — the simulated peer (DESIGN §3.4): an object store reached
through the `FileSystem` interface, with atomic puts and injectable faults.

Fault points (names seen by `Seam.point`):
  r_put      before commit   (fault here = request lost, nothing stored)
  r_put_ack  after commit    (fault here = acknowledgement lost, object stored)
  r_get      before a download
  r_query    exists / info / ls / find / open-for-read
"""

import os

from dvc_objects.fs.memory import MemoryFileSystem

from .seam import REAL


class SimReader:
    """A binary stream that serves its content in PRNG-chosen SHORT reads
    (like a socket / pipe / http body)."""

    def __init__(self, data, rng, short=True):
        self.data, self.pos, self.rng, self.short = data, 0, rng, short
        self.reads = 0
        self.short_reads = 0
        self.closed = False

    def read(self, n=-1):
        left = len(self.data) - self.pos
        if n is None or n < 0:
            n = left
        want = min(n, left)
        if self.short and want > 1 and self.rng.random() < 0.5:
            k = self.rng.randint(1, want)
            if k < want:
                self.short_reads += 1
            want = k
        out = self.data[self.pos : self.pos + want]
        self.pos += want
        self.reads += 1
        return out

    def readable(self):
        return True

    def tell(self):
        return self.pos

    def close(self):
        self.closed = True

    def __enter__(self):
        return self

    def __exit__(self, *a):
        self.close()
        return False


class SimRemoteFS(MemoryFileSystem):
    protocol = "simremote"
    PARAM_CHECKSUM = "md5"

    def __init__(self, name, seam, backing=None, **kwargs):
        super().__init__(global_store=False, **kwargs)
        self.sim_name = name
        self.seam = seam
        self.stats = {"put": 0, "get": 0}
        self.read_rng = None
        self.short_read_rng = None
        self.non_atomic = False
        # optional durable backing directory (outside the world, written with
        # the real os functions, atomically): lets the remote survive the
        # death of the process that talks to it (E8)
        self.backing = backing
        if backing and os.path.isdir(backing):
            for dirpath, _, files in os.walk(backing):
                for fn in files:
                    full = os.path.join(dirpath, fn)
                    if fn.endswith(".part"):
                        continue
                    with REAL["open"](full, "rb") as f:
                        self.fs.pipe_file("/" + os.path.relpath(full, backing), f.read())

    def _persist(self, path, data):
        if not self.backing:
            return
        full = os.path.join(self.backing, self.fs._strip_protocol(path).lstrip("/"))
        d = os.path.dirname(full)
        if not os.path.isdir(d):
            os.makedirs(d, exist_ok=True)
        if data is None:
            try:
                REAL["os.unlink"](full)
            except FileNotFoundError:
                pass
            return
        with REAL["open"](full + ".part", "wb") as f:
            f.write(data)
        REAL["os.rename"](full + ".part", full)

    def __eq__(self, other):
        return isinstance(other, SimRemoteFS) and self.fs.store is other.fs.store

    __hash__ = MemoryFileSystem.__hash__

    def _pt(self, kind, path):
        self.seam.point(kind, f"<{self.sim_name}>{path}")

    # -- writes -----------------------------------------------------------
    def _commit(self, to_info, data):
        self._pt("r_put", to_info)
        if self.non_atomic:
            # a remote without temp+rename: a failure part-way leaves a truncated
            # object under the final name (only used where the property survives it)
            try:
                self._pt("r_put_mid", to_info)
            except BaseException:
                self.fs.pipe_file(to_info, data[: len(data) // 2])
                raise
        parent = self.parent(to_info)
        if parent and not self.fs.exists(parent):
            self.fs.makedirs(parent, exist_ok=True)
        self.fs.pipe_file(to_info, data)
        self._persist(to_info, data)
        self.stats["put"] += 1
        self.seam.after_mutation("r_put", f"<{self.sim_name}>{to_info}")
        self._pt("r_put_ack", to_info)

    def put_file(self, from_file, to_info, callback=None, size=None, **kwargs):
        if hasattr(from_file, "read"):
            if self.read_rng is not None:
                # consume the stream in PRNG-chosen block sizes (E12)
                parts = []
                while True:
                    n = self.read_rng.choice([1, 7, 511, 512, 513, 4096, 65536, 2**20, -1])
                    b = from_file.read(n)
                    if not b:
                        break
                    parts.append(b)
                data = b"".join(parts)
            else:
                data = from_file.read()
        else:
            if self.seam.faults:
                self.seam.point("copy_open_src", os.fspath(from_file), f"<{self.sim_name}>{to_info}")
            with REAL["open"](os.fspath(from_file), "rb") as f:
                data = f.read()
        self._commit(to_info, data)

    def upload_fobj(self, fobj, to_info, **kwargs):
        self._commit(to_info, fobj.read())

    def makedirs(self, path, **kwargs):
        self.fs.makedirs(path, exist_ok=True)

    def move(self, from_info, to_info):
        # server-side rename of a (temporary) object: atomic
        self._pt("r_put", to_info)
        data = self.fs.cat_file(from_info)
        self.fs.pipe_file(to_info, data)
        self._persist(to_info, data)
        self.fs.rm_file(from_info)
        self._persist(from_info, None)
        self.seam.after_mutation("r_put", f"<{self.sim_name}>{to_info}")

    def rm(self, path, recursive=False, **kwargs):
        paths = [path] if isinstance(path, str) else list(path)
        for p in paths:
            self._pt("r_rm", p)
            if self.fs.exists(p):
                self.fs.rm(p, recursive=recursive)
                self._persist(p, None)

    remove = rm

    # -- reads ------------------------------------------------------------
    def get_file(self, from_info, to_info, callback=None, **kwargs):
        self._pt("r_get", from_info)
        data = self.fs.cat_file(from_info)
        self.stats["get"] += 1
        with open(to_info, "wb") as f:  # patched open: a local mutation
            half = len(data) // 2
            f.write(data[:half])
            # the connection may drop in the middle of a download: the local file then holds a prefix
            self._pt("r_get_mid", from_info)
            f.write(data[half:])

    def open(self, path, mode="r", **kwargs):
        if "r" in mode:
            self._pt("r_query", path)
            if self.short_read_rng is not None and "b" in mode:
                return SimReader(self.fs.cat_file(path), self.short_read_rng)
        return self.fs.open(path, mode=mode, **kwargs)

    def exists(self, path, callback=None, batch_size=None):
        if isinstance(path, str):
            self._pt("r_query", path)
            return self.fs.exists(path)
        out = []
        for p in path:
            self._pt("r_query", p)
            out.append(self.fs.exists(p))
        return out

    def isfile(self, path):
        self._pt("r_query", path)
        return self.fs.isfile(path)

    def info(self, path, callback=None, batch_size=None, return_exceptions=False, **kw):
        if isinstance(path, str):
            self._pt("r_query", path)
            return self.fs.info(path)
        return [self.info(p) for p in path]

    def ls(self, path, detail=False, **kwargs):
        self._pt("r_query", path)
        return self.fs.ls(path, detail=detail, **kwargs)

    def find(self, path, prefix=False, batch_size=None, **kwargs):
        paths = [path] if isinstance(path, str) else list(path)
        out = []
        for p in paths:
            self._pt("r_query", p)
            if prefix:
                # prefix listing: everything whose path starts with p
                base = self.parent(p)
                try:
                    cand = self.fs.find(base)
                except FileNotFoundError:
                    cand = []
                sp = self.fs._strip_protocol(p)
                out.extend(c for c in cand if c.startswith(sp))
            else:
                try:
                    out.extend(self.fs.find(p))
                except FileNotFoundError:
                    pass
        res = sorted(set(out))
        self.seam.order_rng.shuffle(res)
        return iter(res)

    # -- harness-side access (never faulted, never logged) -----------------
    def raw_listing(self, root):
        root = self.fs._strip_protocol(root)
        return {
            k[len(root) + 1 :]: bytes(v.getvalue())
            for k, v in self.fs.store.items()
            if k.startswith(root + "/")
        }

    def raw_put(self, path, data):
        self.fs.pipe_file(path, data)
        self._persist(path, data)

    def raw_rm(self, path):
        self.fs.store.pop(self.fs._strip_protocol(path), None)
        self._persist(path, None)
