"""Re-execute a replay file in a fresh interpreter (PYTHONHASHSEED set by the
caller).  Exit 1 + VIOLATION line if the recorded signature and trace digest
recur, 0 if the scenario no longer violates, 2 on divergence."""

import json
import sys

from . import harness


def main(argv=None):
    path = (argv or sys.argv[1:])[0]
    rp = json.load(open(path))
    sc = rp["scenario"]
    res = harness.run_forked(sc, timeout=240)
    if res.get("harness_error"):
        print("HARNESS-ERROR " + res["harness_error"][-1500:])
        return 2
    sigs = [v["sig"] for v in res.get("violations", [])]
    for v in res.get("violations", []):
        print(f"  {v['sig']}: {v['detail'][:600]}")
    if rp["signature"] in sigs:
        if res["trace"] != rp.get("trace_digest"):
            print(f"HARNESS-ERROR trace digest differs: {res['trace']} vs {rp.get('trace_digest')}")
            return 2
        print(f"VIOLATION property={rp['property']} replay={path}")
        print(f"  signature={rp['signature']} trace={res['trace'][:16]} (reproduced)")
        return 1
    print(f"replay: signature {rp['signature']} did not recur (violations now: {sigs})")
    return 0


if __name__ == "__main__":
    sys.exit(main())
