"""Seeded schedulers (DESIGN §3.6).

ThreadSched: real threads, one baton.  A writer runs only while it holds the
baton; at every seam point it hands the baton back to the controller and parks
on its own semaphore.  The controller's choice (PRNG or recorded schedule) is
the only source of interleaving.

ProcSched: the same with forked processes and pipes.
"""

import faulthandler
import json
import os
import select
import sys
import threading
import traceback

STALL_S = 60


class Stall(Exception):
    pass


class Policy:
    """Chooses the next actor among the runnable ones."""

    def __init__(self, rng, spec, schedule=None):
        self.rng = rng
        self.kind = spec.get("kind", "uniform")
        self.p_stay = spec.get("p_stay", 0.7)
        self.schedule = list(schedule) if schedule is not None else None
        self.pos = 0
        self.last = None
        self.prio = {}
        self.change_points = set(spec.get("change_points", []))
        self.step = 0

    def choose(self, runnable):
        runnable = sorted(runnable)
        self.step += 1
        pick = None
        if self.schedule is not None:
            while self.pos < len(self.schedule):
                c = self.schedule[self.pos]
                self.pos += 1
                if c in runnable:
                    pick = c
                    break
            if pick is None:
                # schedule exhausted: finish serially, lowest name first
                pick = self.last if self.last in runnable else runnable[0]
        elif self.kind == "uniform":
            pick = self.rng.choice(runnable)
        elif self.kind == "sticky":
            if self.last in runnable and self.rng.random() < self.p_stay:
                pick = self.last
            else:
                pick = self.rng.choice(runnable)
        else:  # "pct": priorities with random change points
            for a in runnable:
                if a not in self.prio:
                    self.prio[a] = self.rng.random()
            if self.step in self.change_points and self.last in self.prio:
                self.prio[self.last] = -self.rng.random()
            pick = max(runnable, key=lambda a: self.prio[a])
        self.last = pick
        return pick


class ThreadSched:
    def __init__(self, seam, policy):
        self.seam = seam
        self.policy = policy
        self.sems = {}
        self.ctrl = threading.Semaphore(0)
        self.done = {}
        self.results = {}
        self.errors = {}
        self.choices = []
        self.tls = threading.local()
        self.yields = 0

    # called from inside writer threads, via Seam.point/read_point
    def yield_point(self, kind, rel):
        name = getattr(self.tls, "name", None)
        if name is None:
            return
        self.yields += 1
        self.ctrl.release()
        self.sems[name].acquire()

    def run(self, writers):
        """writers: {name: callable}.  Returns when all are done."""
        threads = {}
        for name, fn in writers.items():
            self.sems[name] = threading.Semaphore(0)
            self.done[name] = False

            def body(name=name, fn=fn):
                self.sems[name].acquire()
                self.tls.name = name
                self.seam.set_actor(name)
                try:
                    self.results[name] = fn()
                except BaseException as exc:  # noqa: BLE001
                    self.errors[name] = (
                        type(exc).__name__,
                        repr(exc)[:300],
                        traceback.format_exc()[-1500:],
                    )
                finally:
                    self.done[name] = True
                    self.tls.name = None
                    self.ctrl.release()

            t = threading.Thread(target=body, name=name, daemon=True)
            threads[name] = t
            t.start()
        prev_sched = self.seam.sched
        self.seam.sched = self
        try:
            runnable = set(writers)
            while runnable:
                pick = self.policy.choose(runnable)
                self.choices.append(pick)
                self.sems[pick].release()
                if not self.ctrl.acquire(timeout=STALL_S):
                    faulthandler.dump_traceback(file=sys.stderr, all_threads=True)
                    raise Stall(f"HARNESS-STALL: {pick} did not reach a seam point in {STALL_S}s")
                if self.done[pick]:
                    runnable.discard(pick)
        finally:
            self.seam.sched = prev_sched
        for t in threads.values():
            t.join(timeout=5)


class ProcSched:
    """Writers are forked children.  Protocol (child -> controller, one JSON
    line per message): {"t":"y","k":kind,"p":rel} at a seam point (then the
    child blocks reading one byte), {"t":"done","res":...} at the end."""

    def __init__(self, seam, policy):
        self.seam = seam
        self.policy = policy
        self.choices = []
        self.results = {}
        self.errors = {}
        self.events = []
        self.yields = 0

    def run(self, writers, child_prelude=None):
        chans = {}
        for name, fn in writers.items():
            up_r, up_w = os.pipe()
            dn_r, dn_w = os.pipe()
            sys.stdout.flush()
            sys.stderr.flush()
            pid = os.fork()
            if pid == 0:
                code = 0
                try:
                    os.close(up_r)
                    os.close(dn_w)
                    for other in chans.values():
                        os.close(other["r"])
                        os.close(other["w"])
                    out = os.fdopen(up_w, "w", buffering=1)
                    seam = self.seam
                    seam.set_actor(name)
                    seam.actor_default = name

                    class ChildSched:
                        def yield_point(self_, kind, rel):
                            out.write(json.dumps({"t": "y", "k": kind, "p": rel}) + "\n")
                            out.flush()
                            b = os.read(dn_r, 1)
                            if not b:
                                os._exit(9)

                    if child_prelude:
                        child_prelude(name)
                    # first park: wait to be scheduled
                    b = os.read(dn_r, 1)
                    if not b:
                        os._exit(9)
                    seam.sched = ChildSched()
                    try:
                        res = {"ok": fn()}
                    except BaseException as exc:  # noqa: BLE001
                        res = {"err": [type(exc).__name__, repr(exc)[:300], traceback.format_exc()[-1500:]]}
                    seam.sched = None
                    evs = [[e[2], e[3], e[4], e[5]] for e in seam.events if e[0] is not None]
                    out.write(json.dumps({"t": "done", "res": res, "events": evs, "fired": dict(seam.fired)}, default=str) + "\n")
                    out.flush()
                except BaseException:  # noqa: BLE001
                    traceback.print_exc()
                    code = 3
                finally:
                    os._exit(code)
            os.close(up_w)
            os.close(dn_r)
            chans[name] = {"r": up_r, "w": dn_w, "pid": pid, "buf": b""}
        runnable = set(writers)
        try:
            while runnable:
                pick = self.policy.choose(runnable)
                self.choices.append(pick)
                ch = chans[pick]
                os.write(ch["w"], b"g")
                msg = self._read_msg(ch, pick)
                if msg["t"] == "done":
                    runnable.discard(pick)
                    res = msg["res"]
                    if "err" in res:
                        self.errors[pick] = tuple(res["err"])
                    else:
                        self.results[pick] = res["ok"]
                    for e in msg.get("events", []):
                        self.events.append([pick] + e)
                    for k, v in msg.get("fired", {}).items():
                        self.seam.fired[k] += v
                else:
                    self.yields += 1
        finally:
            for ch in chans.values():
                for fd in (ch["r"], ch["w"]):
                    try:
                        os.close(fd)
                    except OSError:
                        pass
                try:
                    os.waitpid(ch["pid"], 0)
                except ChildProcessError:
                    pass

    def _read_msg(self, ch, name):
        while b"\n" not in ch["buf"]:
            rl, _, _ = select.select([ch["r"]], [], [], STALL_S)
            if not rl:
                raise Stall(f"HARNESS-STALL: process writer {name} silent for {STALL_S}s")
            b = os.read(ch["r"], 1 << 16)
            if not b:
                raise Stall(f"HARNESS-ERROR: process writer {name} died")
            ch["buf"] += b
        line, ch["buf"] = ch["buf"].split(b"\n", 1)
        return json.loads(line.decode())
