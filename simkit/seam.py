"""The seam layer: every source of nondeterminism / every durable effect of
dvc-data goes through here once `install()` has run in the (forked) process
that executes a scenario.  See DESIGN.md §3.1.

Only paths below `Seam.root` are intercepted.  Everything else (imports, the
interpreter, /verif) passes straight through to the real functions.
"""

import builtins
import errno
import io
import os
import shutil
import sys
import threading
from collections import Counter

import re

_HEX64 = re.compile(r"(?<![0-9a-f])[0-9a-f]{64}(?![0-9a-f])")
REAL = {}


def _save_real():
    if REAL:
        return
    for name in (
        "mkdir rmdir rename replace unlink remove chmod link symlink utime "
        "truncate open scandir listdir stat lstat"
    ).split():
        REAL["os." + name] = getattr(os, name)
    REAL["open"] = builtins.open
    REAL["io.open"] = io.open
    REAL["shutil.copyfile"] = shutil.copyfile
    REAL["shutil.rmtree"] = shutil.rmtree


_save_real()

ERRNOS = {
    "EIO": errno.EIO,
    "ENOSPC": errno.ENOSPC,
    "EACCES": errno.EACCES,
}


def make_exc(name, what=""):
    if name == "ConnectionError":
        return ConnectionError(f"sim: connection lost {what}")
    if name == "TimeoutError":
        return TimeoutError(f"sim: timed out {what}")
    if name == "SQLITE_FULL":
        import sqlite3

        return sqlite3.OperationalError("database or disk is full")
    code = ERRNOS[name]
    return OSError(code, f"sim: {os.strerror(code)}", what)


class SimClock:
    """Integer nanosecond counter; the only source of file timestamps."""

    def __init__(self, start_ns=1_700_000_000_000_000_000, tick_ns=1_000_000):
        self.t = start_ns
        self.tick_ns = max(1000, tick_ns)
        self.start = start_ns
        self.hi = start_ns

    def now(self):
        return self.t

    def tick(self):
        self.t += self.tick_ns
        self.hi = max(self.hi, self.t)

    def advance(self, ns):
        self.t += max(0, ns)
        self.hi = max(self.hi, self.t)

    def step_back(self, ns):
        self.t = max(1_000_000_000, self.t - ns)

    def covered(self):
        return self.hi - self.start


class _PermutedScandir:
    def __init__(self, entries):
        self._it = iter(entries)

    def __iter__(self):
        return self

    def __next__(self):
        return next(self._it)

    def __enter__(self):
        return self

    def __exit__(self, *a):
        return False

    def close(self):
        pass


class _RFile:
    """Proxy for files opened for READING inside the world while a scheduler is
    active: every chunk read is a pre-emption point, before AND after the real
    read (another thread may run between a read and the use of its result)."""

    def __init__(self, f, path, seam):
        object.__setattr__(self, "_f", f)
        object.__setattr__(self, "_path", path)
        object.__setattr__(self, "_seam", seam)

    def _wrap(name):  # noqa: N805
        def call(self, *a, **kw):
            self._seam.read_point("read", self._path)
            r = getattr(self._f, name)(*a, **kw)
            self._seam.read_point("read_done", self._path)
            return r

        call.__name__ = name
        return call

    read = _wrap("read")
    readinto = _wrap("readinto")
    read1 = _wrap("read1")
    readline = _wrap("readline")
    del _wrap

    def __enter__(self):
        return self

    def __exit__(self, *a):
        self._f.close()
        return False

    def __iter__(self):
        return iter(self._f)

    def __getattr__(self, name):
        return getattr(self._f, name)


io.BufferedIOBase.register(_RFile)  # code under test may dispatch on isinstance(f, io.BufferedIOBase)


class _WFile:
    """Thin proxy for files opened for writing inside the world: every write
    is a mutation point, close stamps the simulated mtime."""

    def __init__(self, f, path, seam):
        object.__setattr__(self, "_f", f)
        object.__setattr__(self, "_path", path)
        object.__setattr__(self, "_seam", seam)

    def write(self, data):
        self._seam.point("write", self._path)
        return self._f.write(data)

    def close(self):
        if not self._f.closed:
            self._f.close()
            self._seam.stamp(self._path)

    def __enter__(self):
        return self

    def __exit__(self, *a):
        self.close()
        return False

    def __iter__(self):
        return iter(self._f)

    def __getattr__(self, name):
        return getattr(self._f, name)

    def __del__(self):
        try:
            if not self._f.closed:
                self._f.close()
        except Exception:  # noqa: BLE001
            pass


class Seam:
    def __init__(
        self,
        root,
        order_rng,
        clock=None,
        reflink="enotsup",
        permute_listing=True,
    ):
        self.root = os.path.realpath(root).rstrip("/")
        self.order_rng = order_rng
        self.clock = clock or SimClock()
        self.reflink_variant = reflink
        self.permute_listing = permute_listing
        self.events = []
        self.npoints = 0
        self.crash_at = None
        self.crash_hook = None
        self.faults = []  # list of dict rules, see match_fault
        self.fired = Counter()
        self.sched = None
        self.monitors = []
        self.in_monitor = False
        self.tls = threading.local()
        self.actor_default = "main"
        self.tok = Counter()
        self.record_reads = False
        self.installed = False
        self.puts = []  # (kind, relpath) of completed data placements
        self.enabled = True
        self.idx_names = {}
        self.read_hook = None  # called with the path of every in-world open-for-read
        self.fine_reads = False  # under a scheduler: pre-emption points at every chunk read (_RFile)
        self.pool_interleave = False  # SimExecutor runs pool tasks as scheduled threads

    def reset(self, root=None, order_rng=None):
        """Start a fresh sub-run in the same process (new sub-world)."""
        if root is not None:
            self.root = os.path.realpath(root).rstrip("/")
        if order_rng is not None:
            self.order_rng = order_rng
        self.events = []
        self.npoints = 0
        self.crash_at = None
        self.faults = []
        self.monitors = []
        self.tok = Counter()
        self.puts = []
        self.idx_names = {}

    # ------------------------------------------------------------------ util
    def inside(self, p):
        if not self.enabled:
            return False
        try:
            p = os.fspath(p)
        except TypeError:
            return False
        if isinstance(p, bytes):
            try:
                p = p.decode()
            except UnicodeDecodeError:
                return False
        if not p.startswith("/"):
            p = os.path.abspath(p)
        return p == self.root or p.startswith(self.root + "/")

    def rel(self, p):
        if p is None:
            return None
        p = os.fspath(p)
        if p.startswith("<"):
            return p
        if not p.startswith("/"):
            p = os.path.abspath(p)
        if p.startswith(self.root + "/"):
            p = p[len(self.root) + 1 :]
            if "/index/" in p or p.startswith("index/"):
                # ObjectDBIndex directories are named by sha256(absolute store
                # url): replace by an ordinal of first appearance so that the
                # log does not depend on the world's absolute path
                p = _HEX64.sub(lambda m: "<idx%d>" % self.idx_names.setdefault(m.group(0), len(self.idx_names)), p)
            return p
        return p

    def actor(self):
        return getattr(self.tls, "actor", self.actor_default)

    def set_actor(self, name):
        self.tls.actor = name

    def put_target(self):
        return getattr(self.tls, "put_target", None)

    def stamp(self, path):
        try:
            t = self.clock.now()
            REAL["os.utime"](path, ns=(t, t), follow_symlinks=False)
        except OSError:
            pass
        self.clock.tick()

    # ---------------------------------------------------------------- points
    def point(self, kind, p1, p2=None, fault=True):
        """A mutation / state / remote point.  Order: scheduler yield, count,
        log, crash, fault."""
        if self.in_monitor:
            return
        if self.sched is not None:
            self.sched.yield_point(kind, self.rel(p1))
        self.npoints += 1
        k = self.npoints
        tgt = self.put_target()
        ev = [k, self.actor(), kind, self.rel(p1), self.rel(p2), None]
        self.events.append(ev)
        if self.crash_at is not None and k == self.crash_at:
            if self.crash_hook:
                self.crash_hook(self)
            os._exit(77)
        if fault and self.faults:
            exc = self.match_fault(kind, ev[3], ev[4], self.rel(tgt) if tgt else None)
            if exc is not None:
                ev[5] = "FAULT:" + type(exc).__name__ + (
                    ":" + errno.errorcode.get(exc.errno, "?")
                    if isinstance(exc, OSError) and exc.errno
                    else ""
                )
                raise exc
        return ev

    def read_point(self, kind, p1):
        if self.in_monitor:
            return
        if self.sched is not None:
            self.sched.yield_point(kind, self.rel(p1))
            if self.record_reads:
                self.events.append([None, self.actor(), kind, self.rel(p1), None, None])

    def match_fault(self, kind, r1, r2, tgt):
        for rule in self.faults:
            if kind in rule["at"] and rule.get("stuck") is not None and rule["stuck"] == (r2 or r1):
                # "sticky" rule: the path it hit first keeps failing (an immutable / busy file stays so)
                return make_exc(rule["exc"], r2 or r1 or "")
            if rule.get("done"):
                continue
            if kind not in rule["at"]:
                continue
            m = rule.get("match")
            if m is not None:
                hay = [x for x in (tgt, r2, r1) if x]
                if not any(h.endswith(m) or (rule.get("sub") and m in h) for h in hay):
                    continue
            a = rule.get("actor")
            if a is not None and a != self.actor():
                continue
            rule["seen"] = rule.get("seen", 0) + 1
            if rule["seen"] < rule.get("nth", 1):
                continue
            left = rule.get("count", 1) - 1
            rule["count"] = left
            if left <= 0:
                rule["done"] = True
            else:
                rule["seen"] = 0
            self.fired[rule.get("name", rule.get("exc", "action"))] += 1
            if rule.get("sticky"):
                rule["stuck"] = r2 or r1
            if rule.get("action"):
                rule["action"]()  # an external actor does something at this instant; no exception
                return None
            return make_exc(rule["exc"], r2 or r1 or "")
        return None

    def after_mutation(self, kind, p1, p2=None):
        if self.monitors and not self.in_monitor:
            self.in_monitor = True
            try:
                for m in self.monitors:
                    m(kind, self.rel(p1), self.rel(p2))
            finally:
                self.in_monitor = False

    # ------------------------------------------------------------ installers
    def install(self):
        assert not self.installed
        self.installed = True
        S = self

        def wrap1(name, kind, stamp=False):
            real = REAL["os." + name]

            def f(path, *a, **kw):
                if kw.get("dir_fd") is not None or not S.inside(path):
                    return real(path, *a, **kw)
                S.point(kind, path)
                r = real(path, *a, **kw)
                if stamp:
                    S.stamp(path)
                S.after_mutation(kind, path)
                return r

            f.__name__ = name
            setattr(os, name, f)

        def wrap2(name, kind, check_first=False):
            real = REAL["os." + name]

            def f(src, dst, *a, **kw):
                if (
                    kw.get("src_dir_fd") is not None
                    or kw.get("dst_dir_fd") is not None
                    or kw.get("dir_fd") is not None
                    or not (S.inside(dst) or (check_first and S.inside(src)))
                ):
                    return real(src, dst, *a, **kw)
                S.point(kind, src, dst)
                r = real(src, dst, *a, **kw)
                S.after_mutation(kind, src, dst)
                return r

            f.__name__ = name
            setattr(os, name, f)

        wrap1("mkdir", "mkdir")
        wrap1("rmdir", "rmdir")
        wrap1("unlink", "unlink")
        wrap1("remove", "unlink")
        wrap1("chmod", "chmod")
        wrap1("truncate", "truncate", stamp=True)
        wrap2("rename", "rename", check_first=True)
        wrap2("replace", "rename", check_first=True)
        wrap2("link", "link")
        wrap2("symlink", "symlink")

        real_utime = REAL["os.utime"]

        def utime(path, *a, **kw):
            return real_utime(path, *a, **kw)

        os.utime = utime

        real_os_open = REAL["os.open"]
        WR = os.O_WRONLY | os.O_RDWR | os.O_CREAT | os.O_TRUNC | os.O_APPEND

        def os_open(path, flags, mode=0o777, *, dir_fd=None):
            if dir_fd is not None or not (flags & WR) or not S.inside(path):
                if dir_fd is not None:
                    return real_os_open(path, flags, mode, dir_fd=dir_fd)
                return real_os_open(path, flags, mode)
            S.point("os_open_w", path)
            fd = real_os_open(path, flags, mode)
            S.after_mutation("os_open_w", path)
            return fd

        os.open = os_open

        real_open = REAL["open"]

        def sim_open(file, mode="r", *a, **kw):
            if (
                isinstance(file, int)
                or not any(c in mode for c in "wax+")
                or not S.inside(file)
            ):
                if S.sched is not None and not isinstance(file, int) and S.inside(file):
                    S.read_point("open_r", file)
                if S.faults and not S.in_monitor and not isinstance(file, int) and S.inside(file):
                    # a fault rule may name "open_r": the file cannot be read (EIO / EACCES)
                    exc = S.match_fault("open_r", S.rel(file), None, None)
                    if exc is not None:
                        raise exc
                if S.read_hook is not None and not isinstance(file, int) and S.inside(file):
                    S.read_hook(os.fspath(file))
                if S.sched is not None and S.fine_reads and "b" in mode and not isinstance(file, int) and S.inside(file):
                    return _RFile(real_open(file, mode, *a, **kw), os.fspath(file), S)
                return real_open(file, mode, *a, **kw)
            S.point("open_w", file)
            f = real_open(file, mode, *a, **kw)
            S.after_mutation("open_w", file)
            return _WFile(f, os.fspath(file), S)

        builtins.open = sim_open
        io.open = sim_open

        def sim_copyfile(src, dst, *, follow_symlinks=True):
            if not S.inside(dst):
                return REAL["shutil.copyfile"](src, dst, follow_symlinks=follow_symlinks)
            if S.sched is not None:
                S.read_point("copy_read", src)
            if S.faults:
                S.point("copy_open_src", src, dst)
            with real_open(src, "rb") as f:
                data = f.read()
            S.point("copy_create", dst, None)
            fd = real_os_open(dst, os.O_WRONLY | os.O_CREAT | os.O_TRUNC, 0o666)
            try:
                S.after_mutation("copy_create", dst)
                half = len(data) // 2
                if half:
                    os.write(fd, data[:half])
                try:
                    S.point("copy_mid", dst, None)
                except BaseException:
                    raise
                os.write(fd, data[half:])
            finally:
                os.close(fd)
            S.stamp(dst)
            S.after_mutation("copy_done", dst)
            return dst

        shutil.copyfile = sim_copyfile

        def sim_rmtree(path, ignore_errors=False, onerror=None, *, onexc=None, dir_fd=None):
            if dir_fd is not None or not S.inside(path):
                return REAL["shutil.rmtree"](
                    path, ignore_errors=ignore_errors, onerror=onerror
                )

            def handle(func, p):
                if ignore_errors:
                    return
                if onerror is not None:
                    onerror(func, p, sys.exc_info())
                elif onexc is not None:
                    onexc(func, p, sys.exc_info()[1])
                else:
                    raise  # noqa: PLE0704

            def rec(d):
                try:
                    with REAL["os.scandir"](d) as it:
                        ents = sorted(it, key=lambda e: e.name)
                except OSError:
                    handle(os.scandir, d)
                    return
                for e in ents:
                    full = os.path.join(d, e.name)
                    if e.is_dir(follow_symlinks=False):
                        rec(full)
                    else:
                        try:
                            os.unlink(full)
                        except OSError:
                            handle(os.unlink, full)
                try:
                    os.rmdir(d)
                except OSError:
                    handle(os.rmdir, d)

            rec(os.fspath(path))

        shutil.rmtree = sim_rmtree

        real_scandir = REAL["os.scandir"]

        def sim_scandir(path="."):
            if isinstance(path, int) or not S.permute_listing or not S.inside(path):
                return real_scandir(path)
            if S.sched is not None:
                S.read_point("scandir", path)
            with real_scandir(path) as it:
                ents = sorted(it, key=lambda e: e.name)
            S.order_rng.shuffle(ents)
            return _PermutedScandir(ents)

        os.scandir = sim_scandir

        real_listdir = REAL["os.listdir"]

        def sim_listdir(path="."):
            if isinstance(path, int) or not S.permute_listing or not S.inside(path):
                return real_listdir(path)
            names = sorted(real_listdir(path))
            S.order_rng.shuffle(names)
            return names

        os.listdir = sim_listdir

        # --- dvc_objects seams -------------------------------------------
        import dvc_objects.fs.local as dlocal
        import dvc_objects.fs.system as dsystem
        import dvc_objects.fs.utils as dutils

        def token(n=16):
            a = S.actor()
            S.tok[a] += 1
            return f"{a}-{S.tok[a]:04d}"

        dutils.token_urlsafe = token

        real_reflink = dsystem.reflink
        self._real_reflink = real_reflink

        def sim_reflink(src, dst):
            if not S.inside(dst):
                return real_reflink(src, dst)
            v = S.reflink_variant
            if v == "enotsup":
                raise OSError(errno.ENOTSUP, "reflink is not supported")
            if v == "nocow":
                # the real linux code path on a fs without FICLONE support:
                # open(src) ; open(dst, O_CREAT|O_TRUNC) ; ioctl fails ; unlink(dst)
                src_fd = real_os_open(src, os.O_RDONLY)
                try:
                    dst_fd = os.open(dst, os.O_WRONLY | os.O_CREAT | os.O_TRUNC, 0o666)
                except OSError:
                    os.close(src_fd)
                    raise
                os.close(src_fd)
                os.close(dst_fd)
                try:
                    os.unlink(dst)
                except OSError:
                    pass
                raise OSError(errno.EOPNOTSUPP, "Operation not supported")
            # "cow": a working FICLONE: open(dst, O_CREAT|O_TRUNC) creates an
            # empty file, then one ioctl makes the whole content appear.
            S.fired["reflink_cow"] += 1
            with real_open(src, "rb") as f:
                data = f.read()
            dst_fd = os.open(dst, os.O_WRONLY | os.O_CREAT | os.O_TRUNC, 0o666)
            try:
                S.point("ficlone", dst)
            except BaseException:
                os.close(dst_fd)
                try:
                    os.unlink(dst)
                except OSError:
                    pass
                raise
            try:
                os.write(dst_fd, data)
            finally:
                os.close(dst_fd)
            S.stamp(dst)
            S.after_mutation("copy_done", dst)
            return None

        dsystem.reflink = sim_reflink

        real_put = dlocal.FsspecLocalFileSystem.put_file

        def put_file(self_, lpath, rpath, callback=None, **kwargs):
            prev = getattr(S.tls, "put_target", None)
            S.tls.put_target = rpath
            try:
                return real_put(self_, lpath, rpath, callback=callback, **kwargs)
            finally:
                S.tls.put_target = prev

        dlocal.FsspecLocalFileSystem.put_file = put_file

        import tqdm

        tqdm.tqdm.monitor_interval = 0

        # the persistent remote index (diskcache.Index over SQLite): clearing it is a fault point
        # (exc "SQLITE_FULL" -> sqlite3.OperationalError: database or disk is full)
        import diskcache

        real_clear = diskcache.Index.clear

        def sim_index_clear(self_):
            if S.inside(self_.directory):
                S.point("idx_clear", self_.directory)
            return real_clear(self_)

        diskcache.Index.clear = sim_index_clear

    # ------------------------------------------------------------------ misc
    def trace_digest(self):
        import hashlib
        import json

        return hashlib.sha256(
            json.dumps(self.events, sort_keys=True, default=str).encode()
        ).hexdigest()
