"""./check selftest setup|determinism|sensitivity"""

import json
import os
import shutil
import subprocess
import sys
import tempfile
import time

from . import harness


def setup():
    from . import main as M

    ok = True
    r = subprocess.run(
        [M.PY, "-c",
         "import dvc_data, dvc_objects, diskcache, sqltrie, fsspec, os;"
         "assert os.path.realpath(dvc_data.__file__).startswith(os.path.realpath(os.environ.get('VERIF_REPO', '/repo') + '/src')), dvc_data.__file__;"
         "print('imports ok', dvc_data.__file__)"],
        env=M.env_for(0), capture_output=True, text=True,
    )  # fmt: skip
    print(r.stdout.strip(), r.stderr.strip()[-500:])
    ok &= r.returncode == 0
    try:
        d = tempfile.mkdtemp(prefix="simkit-setup-", dir=harness.SHM)
        os.rmdir(d)
        print("/dev/shm writable")
    except OSError as e:
        print("HARNESS-ERROR /dev/shm not usable:", e)
        ok = False
    return 0 if ok else 2


def determinism(props, runs):
    from . import main as M

    props = props or sorted(harness.PROPS)
    bad = 0
    report = {}
    for prop in props:
        try:
            harness.engine_for(prop)
        except ImportError:
            continue
        sigs = []
        t0 = time.time()
        for layout, par in (("A", 16), ("B", 5)):
            tmp = tempfile.mkdtemp(prefix="simkit-master-", dir=harness.SHM)
            try:
                recs, errs = M.run_workers(prop, 12345, runs, tmp, parallel=par)
            finally:
                shutil.rmtree(tmp, ignore_errors=True)
            if errs:
                print(f"HARNESS-ERROR {prop}: {errs[:3]}")
                bad += 1
            sigs.append(
                {
                    r["i"]: (
                        r["res"].get("trace"),
                        r["res"].get("points"),
                        tuple(sorted(v["sig"] for v in r["res"].get("violations", []))),
                        r["res"].get("harness_error", "")[:80],
                    )
                    for r in recs
                }
            )
        diff = [i for i in sigs[0] if sigs[0][i] != sigs[1].get(i)]
        herr = [i for i in sigs[0] if sigs[0][i][3]]
        report[prop] = {
            "runs": len(sigs[0]),
            "diverged": diff[:10],
            "harness_errors": herr[:10],
            "wall_s": round(time.time() - t0, 1),
        }
        status = "OK" if not diff and not herr else "DIVERGED"
        print(f"determinism {prop}: {len(sigs[0])} runs x2 layouts: {status} {diff[:5]} herr={herr[:5]}")
        if diff or herr:
            bad += 1
    os.makedirs(os.path.join(M.VERIF, "reports"), exist_ok=True)
    with open(os.path.join(M.VERIF, "reports", "determinism.json"), "w") as f:
        json.dump(report, f, indent=1, sort_keys=True)
    return 0 if not bad else 2


def main(a):
    if a.what == "setup":
        return setup()
    if a.what == "determinism":
        return determinism(a.props, a.runs)
    from . import sensitivity

    if a.what == "benign":
        return sensitivity.benign(a)
    return sensitivity.main(a)
