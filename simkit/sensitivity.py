"""./check selftest sensitivity [ids...] — every seeded change under
/verif/seeded/<id>/ is applied to a SCRATCH copy of the repository's HEAD
(under /dev/shm, never /repo itself), the quick tier of the property it breaks
(and of any extra properties listed in meta.json 'also_run') is run against
that copy via VERIF_REPO, and the outcome is recorded in
reports/sensitivity.json and in the mutant's meta.json."""

import json
import os
import shutil
import subprocess
import tempfile
import time


def main(a):
    from . import main as M

    repo = os.environ.get("VERIF_REPO", "/repo")
    seeded = os.path.join(M.VERIF, "seeded")
    ids = a.props or sorted(d for d in os.listdir(seeded) if os.path.isdir(os.path.join(seeded, d)))
    report = {}
    missed = 0
    for mid in ids:
        mdir = os.path.join(seeded, mid)
        meta = json.load(open(os.path.join(mdir, "meta.json")))
        props = [meta["breaks_property"]] + [p for p in meta.get("also_run", []) if p != meta["breaks_property"]]
        scratch = tempfile.mkdtemp(prefix="sens-repo-", dir="/dev/shm")
        try:
            subprocess.run(f"git -C {repo} archive HEAD | tar -x -C {scratch}", shell=True, check=True)
            r = subprocess.run(["git", "apply", os.path.join(mdir, "patch.diff")], cwd=scratch, capture_output=True, text=True)
            if r.returncode != 0:
                report[mid] = {"error": "patch does not apply to HEAD: " + r.stderr[-300:]}
                print(f"sensitivity {mid}: PATCH DOES NOT APPLY")
                missed += 1
                continue
            res = {}
            for p in props:
                env = dict(os.environ, VERIF_REPO=scratch)
                t0 = time.time()
                rr = subprocess.run(
                    [os.path.join(M.VERIF, "check"), "run", p, "--tier", "quick", "--no-evidence",
                     "--max-minimise", "1", "--min-budget", "40"],
                    env=env, capture_output=True, text=True,
                )  # fmt: skip
                sigs = sorted({ln.split("signature=")[1].split()[0] for ln in rr.stdout.splitlines() if "signature=" in ln}
                              | {ln.split("sig=")[1].split()[0] for ln in rr.stdout.splitlines() if " sig=" in ln})
                res[p] = {"exit": rr.returncode, "signatures": sigs[:8], "wall_s": round(time.time() - t0, 1)}
                if rr.returncode not in (0, 1):
                    res[p]["harness"] = [ln[:300] for ln in rr.stdout.splitlines() if "HARNESS" in ln][:3]
                    print(f"   {mid}/{p}: exit {rr.returncode}: {res[p]['harness']}", flush=True)
            detected = [p for p, v in res.items() if v["exit"] == 1]
            report[mid] = {"breaks": meta["breaks_property"], "results": res, "detected_by": detected}
            meta["detected_by"] = [f"{p} quick tier: {', '.join(res[p]['signatures'][:3])}" for p in detected]
            with open(os.path.join(mdir, "meta.json"), "w") as f:
                json.dump(meta, f, indent=1)
            ok = meta["breaks_property"] in detected
            if not ok:
                missed += 1
            print(f"sensitivity {mid}: {'DETECTED' if ok else 'MISSED'} by {detected} ({ {p: v['exit'] for p, v in res.items()} })", flush=True)
        finally:
            shutil.rmtree(scratch, ignore_errors=True)
    os.makedirs(os.path.join(M.VERIF, "reports"), exist_ok=True)
    out = os.environ.get("VERIF_SENS_OUT") or os.path.join(M.VERIF, "reports", "sensitivity.json")
    prev = {}
    if os.path.exists(out) and a.props:
        prev = json.load(open(out))
    prev.update(report)
    with open(out, "w") as f:
        json.dump(prev, f, indent=1, sort_keys=True)
    print(f"sensitivity: {len(ids) - missed}/{len(ids)} seeded changes detected by the check of the property they break")
    return 0 if not missed else 1


def benign(a):
    """./check selftest benign — behaviour-preserving patches under /verif/benign
    must keep the repository's suite green AND every listed quick check at exit 0."""
    from . import main as M

    repo = os.environ.get("VERIF_REPO", "/repo")
    bdir = os.path.join(M.VERIF, "benign")
    props = json.load(open(os.path.join(bdir, "props.json")))
    names = a.props or sorted(props)
    report = {}
    bad = 0
    for name in names:
        scratch = tempfile.mkdtemp(prefix="sens-repo-", dir="/dev/shm")
        try:
            subprocess.run(f"git -C {repo} archive HEAD | tar -x -C {scratch}", shell=True, check=True)
            r = subprocess.run(["git", "apply", os.path.join(bdir, name + ".diff")], cwd=scratch, capture_output=True, text=True)
            if r.returncode != 0:
                report[name] = {"error": "does not apply: " + r.stderr[-200:]}
                bad += 1
                print(f"benign {name}: DOES NOT APPLY")
                continue
            t = subprocess.run(
                ["/venv/bin/python", "-m", "pytest", "-q", "-p", "no:cacheprovider", "-x"], cwd=scratch,
                env=dict(os.environ, PYTHONPATH=scratch + "/src"), capture_output=True, text=True,
            )
            tests = t.stdout.strip().splitlines()[-1] if t.stdout.strip() else "?"
            res = {}
            for p in props[name]:
                rr = subprocess.run(
                    [os.path.join(M.VERIF, "check"), "run", p, "--tier", "quick", "--no-evidence", "--max-minimise", "1", "--min-budget", "30"],
                    env=dict(os.environ, VERIF_REPO=scratch), capture_output=True, text=True,
                )
                res[p] = rr.returncode
                if rr.returncode != 0:
                    print("   ", [ln[:250] for ln in rr.stdout.splitlines() if "VIOLATION" in ln or "HARNESS" in ln or "signature" in ln][:4])
            ok = "164 passed" in tests and all(v == 0 for v in res.values())
            bad += 0 if ok else 1
            report[name] = {"tests": tests, "checks": res, "ok": ok}
            print(f"benign {name}: {'OK' if ok else 'ALARM'} tests='{tests}' {res}", flush=True)
        finally:
            shutil.rmtree(scratch, ignore_errors=True)
    with open(os.path.join(M.VERIF, "reports", "benign.json"), "w") as f:
        json.dump(report, f, indent=1, sort_keys=True)
    return 0 if not bad else 1
