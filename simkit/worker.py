"""Worker: one interpreter per PYTHONHASHSEED bucket.  Executes run ids
i = bucket, bucket+nb, ... < n, one forked child per run, and writes one JSON
line per run to --out."""

import argparse
import json
import os
import random
import sys
import time

from . import harness


def make_scenario(prop, verif_seed, i):
    eng = harness.engine_for(prop)
    run_seed = harness.H(verif_seed, prop, i)
    sc = eng.generate(prop, random.Random(run_seed))
    sc["prop"] = prop
    sc["seed"] = run_seed
    sc["run"] = i
    sc["hashseed"] = int(os.environ.get("PYTHONHASHSEED", "0") or 0)
    return sc


def main(argv=None):
    ap = argparse.ArgumentParser()
    ap.add_argument("--prop", required=True)
    ap.add_argument("--seed", type=int, default=0)
    ap.add_argument("--bucket", type=int, required=True)
    ap.add_argument("--nb", type=int, required=True)
    ap.add_argument("--n", type=int, required=True)
    ap.add_argument("--out", required=True)
    ap.add_argument("--deadline", type=float, default=0.0)
    ap.add_argument("--timeout", type=float, default=180.0)
    ap.add_argument("--digests-only", action="store_true")
    a = ap.parse_args(argv)

    import dvc_data

    want = os.path.realpath(os.environ.get("VERIF_REPO", "/repo") + "/src")
    if not os.path.realpath(dvc_data.__file__).startswith(want):
        print(f"HARNESS-ERROR dvc_data imported from {dvc_data.__file__}", flush=True)
        return 2

    eng = harness.engine_for(a.prop)
    sample_every = max(1, a.n // 48)
    with open(a.out, "w") as out:
        for i in range(a.bucket, a.n, a.nb):
            if a.deadline and time.time() > a.deadline:
                out.write(json.dumps({"i": i, "skipped": True}) + "\n")
                continue
            sc = make_scenario(a.prop, a.seed, i)
            t0 = time.time()
            res = harness.run_forked(sc, timeout=a.timeout)
            rec = {
                "i": i,
                "digest": harness.scenario_digest(sc),
                "wall": round(time.time() - t0, 4),
                "res": res,
            }
            if res.get("violations") or res.get("harness_error") or i % sample_every == 0:
                rec["scenario"] = sc
            out.write(json.dumps(rec, default=str) + "\n")
            out.flush()
    return 0


if __name__ == "__main__":
    sys.exit(main())
