#!/bin/bash
# usage: tools/confirm_mutant.sh <agent-out-dir/mK> <seeded-id> <property> <worktree>
# Confirms in the scratch worktree: patch applies, suite passes, demo exits 1 with / 0 without; then
# stores it under /verif/seeded/<id>/.
set -u
src="$1"; id="$2"; prop="$3"; wt="$4"
git -C "$wt" checkout -q -- . ; git -C "$wt" checkout -q --detach "$(git -C /repo rev-parse HEAD)" 2>/dev/null
git -C "$wt" apply "$src/patch.diff" || { echo "APPLY FAILED"; exit 1; }
tests=$(cd "$wt" && PYTHONPATH="$wt/src" timeout 900 /venv/bin/python -m pytest -q -p no:cacheprovider 2>&1 | tail -1)
PYTHONPATH="$wt/src" timeout 300 /venv/bin/python "$src/demo.py" >/tmp/demo_with.txt 2>&1; with=$?
git -C "$wt" checkout -q -- .
PYTHONPATH="$wt/src" timeout 300 /venv/bin/python "$src/demo.py" >/tmp/demo_without.txt 2>&1; without=$?
echo "$id: tests='$tests' demo_with_patch=$with demo_without_patch=$without"
case "$tests" in *"164 passed"*) ;; *) echo "TESTS NOT 164 PASSED"; exit 1;; esac
[ "$with" = 1 ] && [ "$without" = 0 ] || { echo "DEMO OUTCOME WRONG"; exit 1; }
mkdir -p /verif/seeded/$id
cp "$src/patch.diff" "$src/demo.py" /verif/seeded/$id/
[ -f "$src/notes.md" ] && cp "$src/notes.md" /verif/seeded/$id/
python3 - "$id" "$prop" "$tests" "$(git -C /repo rev-parse --short HEAD)" <<'PY'
import json,sys
id_,prop,tests,head=sys.argv[1:5]
notes=open(f"/verif/seeded/{id_}/notes.md").read() if __import__("os").path.exists(f"/verif/seeded/{id_}/notes.md") else ""
meta={"id":id_,"breaks_property":prop,"base_commit":head,
 "needs_to_manifest":"see notes.md (written by the independent sub-agent)",
 "confirmed":{"applies_on":head,"test_suite_with_patch":tests,"demo_with_patch_exit":1,"demo_without_patch_exit":0,
   "how":"tools/confirm_mutant.sh in a scratch worktree under /tmp (PYTHONPATH=<worktree>/src /venv/bin/python)"},
 "detected_by":[], "notes_excerpt":notes[:600]}
json.dump(meta,open(f"/verif/seeded/{id_}/meta.json","w"),indent=1)
PY
