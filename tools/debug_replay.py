"""Run a replay file's scenario in THIS process with logging enabled (debug aid)."""
import json, sys, os, logging
sys.path[:0] = ["/repo/src", "/verif"]
from simkit import harness
rp = json.load(open(sys.argv[1]))
sc = rp["scenario"]
root = harness.new_root("-dbg")
orig = harness._install_common
def inst(ctx):
    orig(ctx)
    logging.disable(logging.NOTSET)
    logging.basicConfig(level=logging.DEBUG if len(sys.argv) > 2 else logging.WARNING)
harness._install_common = inst
res = harness.execute_here(sc, root)
print(json.dumps({k: res[k] for k in ("violations", "harness_error") if k in res}, indent=1)[:3000])
print("root kept at", root)
