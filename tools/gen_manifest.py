#!/usr/bin/env python3
"""Regenerates /verif/MANIFEST.json from the table below (single source of truth)."""
import json, os, sys

VERIF = os.path.dirname(os.path.dirname(os.path.abspath(__file__)))

ENGINES = {
    "e01_storehist": ("engines/e01_storehist.py", ["C01", "C02", "C06"], "seeded operation histories over 2-4 object stores vs reference model"),
    "e02_treeid": ("engines/e02_treeid.py", ["C03"], "directory id along many routes (insertion/listing/pool-completion orders, state warm/cold) vs canonical encoder"),
    "e03_xfer": ("engines/e03_xfer.py", ["C04", "C11", "C12"], "transfer under enumerated upload-fault subsets + clean retry; status/index histories"),
    "e04_wshist": ("engines/e04_wshist.py", ["C05", "C10"], "workspace histories: user edits x checkout / relink / link clean-up vs model"),
    "e05_tamper": ("engines/e05_tamper.py", ["C07"], "tamper histories with cold/warm/stale hash-state and simulated clock"),
    "e06_idxco": ("engines/e06_idxco.py", ["C09"], "index compare/apply from arbitrary prior workspace states"),
    "e07_statehist": ("engines/e07_statehist.py", ["C13"], "file mutation x hash query histories under a simulated clock (advance, step back, coarse ticks)"),
    "e08_crash": ("engines/e08_crash.py", ["C15"], "process-death enumeration at every seam point, restart in a fresh process, audit + re-run"),
    "e09_conc": ("engines/e09_conc.py", ["C16"], "N writers (threads / forked processes) under a seeded baton scheduler at seam points"),
    "e10_lazyidx": ("engines/e10_lazyidx.py", ["C17"], "access-order histories on lazy vs explicit index realisations"),
    "e11_pushfetch": ("engines/e11_pushfetch.py", ["C18"], "collect/push/fetch through storage mappings with a faulty first round"),
    "e12_stream": ("engines/e12_stream.py", ["C14"], "short-read stream simulation through the hashing stream and the upload path"),
}

# property -> (level, text, note, technique, design_ref)
CHECKS = {
    "C04": ("fault_enumeration",
            "Seeded scenarios (trees sharing files, closed request, closed pre-populated destination of each store class incl. a simulated remote with atomic puts, optional remote index); per scenario every single-object upload failure and every failure subset up to the stated bound is executed against the real transfer code, closure of the destination is evaluated after every destination mutation (i.e. at every possible kill point of the run), then a clean retry must complete the destination. Sampling over scenarios, enumeration within; evidence not proof. Scenarios also include files missing on both sides (restored before the retry), a remote index carried over from an earlier push whose directories have since vanished, a source object that disappears between the status query and its upload, permission errors, and a third of the closed requests are sent through index collect()+push() instead of transfer(); the abort-at-every-point clause with a real process kill is executed by the C15 engine's xfer_multi family.",
            "Trusts tmpfs POSIX semantics, the stepwise copyfile re-implementation, SimRemoteFS atomic puts; faults are injected at copy-create / mid-copy / rename / remote put / remote ack.",
            "deterministic simulation: seeded scenarios + per-scenario upload-fault subset enumeration with inline closure monitor", "DESIGN.md §5 C04"),
    "C11": ("fault_enumeration",
            "Open-world transfer scenarios (shallow or expanded requests, arbitrary source/destination contents, ids missing on both sides, corrupt sources under verify) with the per-scenario upload-failure subsets enumerated as for C04; after each run the TransferResult is compared with before/after listings of both stores taken straight from the kernel / the simulated remote: partition, transferred => present with right bytes, absent => failed or missing on both sides, present-before => neither re-sent (seam log) nor reported, source bytes unchanged. Also: destinations with a hash-state database, a pre-populated remote index whose directories vanished, a non-atomic remote on which a failed put leaves a truncated object under the final name, empty directory objects. Also: a second round through the same store handles after another client delivered part of the missing objects (files first, directories only when complete).",
            "With a remote index the destination is generated closed (the index's 'directory exists => contents exist' shortcut is by design and C12's subject). Corrupt dir objects in the source are not generated (transfer asserts on them).",
            "deterministic simulation: seeded scenarios + upload-fault subset enumeration, result vs store-listing oracle", "DESIGN.md §5 C11"),
    "C12": ("exploration",
            "Seeded histories over a source, a destination (each store class, SimRemoteFS) and one shared ObjectDBIndex: clean and faulty closed transfers, external deletions by 'another client', status and compare_status; without index every answer must equal the actual listing (both lookup strategies of the generic class are reached by randomising LIST_OBJECT_PAGE_SIZE / TRAVERSE_PREFIX_LEN and adding 00-prefixed fillers); with index every directory reported existing must be in the store at that instant and every id the index holds must have been delivered earlier (tracked from seam events) or be listed by a directory present now. Also: read errors while unprotected objects are re-hashed during index-free queries, and a failing index clear (SQLite 'database or disk is full') during indexed queries: the query may refuse, a returned answer is held to the same oracle.",
            "Index-free exactness for LocalHashFileDB uses intact objects only (its existence query is an integrity check, C07).",
            "deterministic simulation: seeded operation/fault histories checked against a reference model after every step", "DESIGN.md §5 C12"),
    "C15": ("fault_enumeration",
            "For each seeded scenario (operation family x reflink variant x tree x pre-populated destination) a golden run counts every seam point of the operation - filesystem mutations including mid-copy, state-database calls, remote puts - and then for EVERY k the operation is re-run from scratch in a forked process that dies with os._exit at point k (no finally/except clean-up runs, staged in-memory objects vanish); a second fresh process audits the durable state (no write-protected object mismatches its name; no hash-state row whose token matches the file vouches for a wrong hash; every valid directory object has its files), re-runs the operation and audits again (all objects valid and protected, object set equals the golden run's). Complete over crash points per scenario, sampled over scenarios. Families since added: closed two-directory push with shared files and a remote index (transfer with cache_odb = destination, with the default cache_odb, and through index collect()+push()), two-cache index save. In 30% of the crash points the recovery run is itself killed at one of its first four seam points and a third process recovers.",
            "Crash = process death; no power-loss model. SQLite statements are atomic (crash points fall between statements). A working reflink is modelled as create-empty + atomic clone. The generic store class over a POSIX directory is not a target (healing belongs to LocalHashFileDB); it is covered over SimRemoteFS with atomic puts.",
            "deterministic simulation: process-death enumeration at every seam point + restart in a fresh process + audits", "DESIGN.md §5 C15"),
    "C16": ("exploration",
            "2-4 writers with heavily overlapping trees run build()+transfer() into one LocalHashFileDB with one shared hash-state database, as real threads (one State object) or as forked processes (optionally after setuid to an unprivileged uid, so the kernel - not a model - decides permission outcomes). A seeded controller holds a single baton: a writer runs only between two seam points (every filesystem mutation, stat/open/scandir read, state-database call, and every SQL statement issued outside a transaction) and the controller picks who proceeds next under a uniform / sticky / priority-with-change-points policy, so one seed is one exactly repeatable interleaving. Oracle: no writer raised, no TransferResult.failed, final store == union of the writers' independently computed object sets byte for byte, each writer's directory id is its model's, no hash-state row vouches for wrong content. One genuine defect (F15, reflink create/clone vs healing race) is recorded in known_findings.json and printed as KNOWN-FINDING; every failed upload's exception type and innermost library frame are part of the signature so that any other failure still alarms. In 60% of the scenarios chunk reads are pre-emption points too (before and after each read).",
            "Pre-emption only at seam points, not arbitrary bytecodes; pool tasks inside one writer are reordered, not interleaved. Runs as root except in the uid variant.",
            "deterministic simulation: seeded baton scheduler over real threads / forked processes at seam points", "DESIGN.md §5 C16"),
    "C01": ("exploration",
            "Seeded histories of 3-12 real operations (stage directory/file, upload-stage, store-to-store transfer closed/expanded/hardlink/verify, index save of nested directories, migrate of a legacy md5-dos2unix store, gc, user edits) over four stores of both classes plus a simulated remote, with listing order, pool completion order, set order (PYTHONHASHSEED), reflink variant and the parallel-hashing threshold seeded, 60% of histories with injected upload faults (create / mid-copy / rename / lost put / lost ack). After EVERY operation every store is audited from raw kernel listings: each object's name equals the digest of its bytes under that store's algorithm (directory objects: canonical listing + .dir) and local-class objects added by a successful operation are mode 0444. Since round 4: chmod failures while protecting placed objects (tolerated by the library) followed by a fault-free repetition of the same operation, after which everything the pair added must be read-only; a concurrent editor replacing a workspace file between two reads of an upload staging.",
            "Under an injected fault in the same operation an empty unprotected file at a final name (reflink window) is tolerated, nothing else. Hard-linked migration changing the source object's mode is not asserted on.",
            "deterministic simulation: seeded operation/fault histories with store audit against a reference model after every step", "DESIGN.md §5 C01"),
    "C02": ("exploration",
            "Fault-free histories as for C01 plus checkouts: every staged tree or file is checked out into a fresh location through hashfile.checkout (copy / hardlink / symlink, reflink under the working-reflink variant; with and without hash-state) and through index build->md5->save->compare->apply; the walk of the fresh location must equal the model tree byte for byte, Tree.load must list exactly the model's (path, digest) pairs, reported nfiles/size must match, nested directory entries saved by the index must carry the id of their sub-tree.",
            "Refinement against a reference model inside the simulated environment (listing order, simulated mtimes feeding the state cache, pool order); no fault dimension.",
            "deterministic simulation: seeded histories, round-trip vs reference model", "DESIGN.md §5 C02"),
    "C06": ("exploration",
            "gc is called on store states produced by real seeded histories (files, directory objects, shared files, leftovers of failed adds, evicted objects) with used sets drawn from ids in the store, absent ids, ids carrying another algorithm's name, directory ids; shallow and expanding (optionally through a separate cache_odb), dry and real, read-only stores. Oracle: returned count == |S - U|, store afterwards lists exactly S & U (S when dry), read-only store refused and untouched, with S from the store's own listing before the call and U computed independently from the model. Also: the n-th removal fails (EACCES/EIO): gc may raise (then no used object may be gone), but a gc that returns is held to the exact result.",
            "No schedule or fault dimension exists in gc itself; the simulation contributes history-produced store states and the model comparison.",
            "deterministic simulation: seeded histories producing store states, gc vs set-difference model", "DESIGN.md §5 C06"),
    "C09": ("exploration",
            "Seeded (prior workspace, target index) pairs over one small name pool so that file<->directory replacements occur at every depth; target as explicit entries (with the explicit parent-directory entries DVC always adds) and/or an unloaded directory object under a prefix, exec bits, link type, delete on/off, evicted file objects or evicted directory object; old side built as DVC does (build + md5). After compare+apply on the real tmpfs workspace: workspace files == target files byte for byte, target directories exist, explicit exec entries executable, a second compare has nothing to create or delete, with delete off every prior path outside the target survives, every unavailable target path is reported through apply's onerror (for itself or its directory). Also: prior workspaces holding symbolic links into the cache or dangling ones (then indexed the way DVC's build_data_index does, build_entries(compute_hash=True)); exec bits judged through symlinks.",
            "Indexes without explicit parent-directory entries are outside the property's well-formed targets (DVC always adds them). With delete off, convergence is only required when no path changes kind.",
            "deterministic simulation: seeded workspace-state x target pairs, apply vs reference model with second-compare fixpoint check", "DESIGN.md §5 C09"),
    "C05": ("exploration",
            "Two seeded history kinds on a real tmpfs workspace under the simulated clock. (1) user operations (write / atomic replace / delete / file<->dir swap with cached or uncached bytes, eviction of cache objects) interleaved with UNFORCED checkouts (prompt absent or declining, relink on/off, every link type, both store classes, with/without state): before each checkout the set U of files whose bytes the cache does not hold intact is computed from raw listings; afterwards - whether the call returned or raised - every file of U is byte-identical, and if a member of U stood in the way of the target the call must not have returned normally. (2) link records: save_link and checkout-recorded links, user modify in place / replace / remove / re-create at later simulated times, get_unused_links(used)+remove_links: every path that disappears must be a recorded link, not listed as used, unmodified since it was recorded. Also: in-place edits that leave an OLDER mtime than the recorded one, and a truncated unprotected leftover sitting in the cache under the id of the user's unsaved bytes.",
            "A modification happens at a strictly later simulated time than the record it invalidates (the link token is (inode, mtime)). Any exception counts as a refusal; the safety oracle is byte preservation.",
            "deterministic simulation: seeded user/checkout histories under a simulated clock vs byte-accounting oracle", "DESIGN.md §5 C05"),
    "C10": ("exploration",
            "Seeded (prior, target, L0, L1) scenarios: the prior tree is materialised by a real checkout with link type L0, the user adds / removes / atomically replaces nested files, then a forced checkout of the target with configured link type L1, the same call again, then relink=True; both store classes, with/without state, duplicate contents and empty files, single-file targets. Oracle: workspace == target bytes; the second call returns None and the seam records no workspace mutation; after relink every file is of type L1 judged by lstat/readlink/inode against the cache object; the cache's {oid: bytes} is identical before and after; the saved link record equals (inode, mtime token) recomputed independently from the workspace. Also: prior files that are symlinks into another copy of the cache; a checkout that changed the workspace must save a link record.",
            "User edits of link-type files are atomic replacements. Zero-length files are exempt from the hardlink-inode test (LocalFileSystem.link deliberately creates a fresh empty file).",
            "deterministic simulation: seeded workspace histories x link-type matrix vs reference model, seam log as mutation witness", "DESIGN.md §5 C10"),
    "C07": ("exploration",
            "Seeded histories under the simulated clock: objects (files and a directory object) enter a LocalHashFileDB or generic store raw (hash-state cold) or through the real add() (state warm), are tampered at a later simulated time (truncate, append, same-length rewrite, rewrite, replace-by-rename optionally with the old mtime restored) always leaving a mode other than exactly 0444, intact objects get chmod-ed away from 0444, the clock advances, and check / hashfile.check(tree) / oids_exist / exists / checkout of a referencing tree / add(verify=True) from a corrupt source are issued in random order and repetition. A byte-level model decides per query: tampered => rejected and removed, never reported existing, never materialised by checkout, never retained by a verifying add; intact => never rejected, deleted or changed, protected after a successful check on the local class. Also: every removal of a rejected object fails for the duration of a checkout (refusing is fine, materialising wrong bytes is not); add(verify=True, hardlink=True).",
            "Tampering that is invisible to (inode, mtime, size) - an in-place same-length rewrite at an unchanged mtime - is not generated (C13 counts and excludes it).",
            "deterministic simulation: seeded tamper/query histories under a simulated clock vs byte-level model", "DESIGN.md §5 C07"),
    "C13": ("exploration",
            "Seeded histories over <=12 files (2% of runs 1000-2100 files, for the SQL parameter-batch boundary) under a simulated clock that advances by 0 .. 1 day, steps backwards and ticks coarsely (1us/1ms/1s/2s): write, in-place overwrite with the same or another length, append, atomic replace (new inode, optionally same length), touch, delete, re-create; interleaved queries state.get, get_many (batch knob 2/3/7/999, stat info supplied or not), hash_file(state), build(dry_run), build_entries(compute_hash), index md5 and update(new, old); injected rows of another algorithm, of the legacy algorithm name and of a newer format version; lookups/saves through a non-local filesystem. Every returned hash is compared with the reference digest of the file's current bytes at that instant; batch and single answers must agree; a mutation that leaves (inode, mtime, size) all identical is detected from the recorded real stat triples, counted and excluded rather than generated away. Also: a file rewritten WHILE its directory is being hashed (read hook between two reads of the walk), an old (inode, mtime, size) triple recurring with new bytes, empty files, legacy-algorithm queries, a previous index written to disk and re-opened before update(). Also: atomic replacement by same-size bytes carrying the same mtime; workspace entries that are symlinks to files edited elsewhere; an exact row model for legacy-algorithm rows.",
            "mtimes are kept >= 1us apart (the token is built from the float st_mtime). Caller-supplied stat info is always fresh.",
            "deterministic simulation: seeded mutation/query histories under a simulated clock (advance, step back, coarse ticks) vs reference digests", "DESIGN.md §5 C13"),
    "C17": ("exploration",
            "A logical index (explicit files with explicit parents plus 1-3 directory objects at depth 0-2 that contain sub-directories) is realised lazily (one unloaded entry per directory object + ObjectStorage on a real cache) and explicitly, in memory or SQLite-backed via DataIndex.open(); a seeded ORDER of 4-20 accesses - lookup, membership, iteritems(prefix, shallow), ls, info, diff(L, E, hash_only), DataFileSystem ls/info/find/open, view(filter).iteritems over prefix-closed filters (first and second iteration), load() twice - decides at which moment each directory gets loaded. Every answer of the lazy index must equal the explicit index's and the model's; the explicit index is checked against the model too, so a wrong model is a harness error, not an alarm. Also: view iteration with a prefix (shallow or not) strictly inside an unloaded directory, view.ls and the fs adaptor over a view, close + re-open of the SQLite-backed index between accesses, a directory object that arrives in storage only after its first (failed, swallowed) access, empty directory objects. Also: iterations consumed step by step with another read access between two steps; a loader process killed at its k-th write to the SQLite index file; cache + remote storage with a stale cache existence index (the adaptor must serve from the remote).",
            "Entries are compared on (key, isdir, hash value); the loaded flag and sizes are not observables. longest_prefix is not part of the statement and is not compared. No fault dimension (a failing load is C09's subject).",
            "deterministic simulation: seeded access-order histories on lazy vs explicit realisations vs reference model", "DESIGN.md §5 C17"),
    "C18": ("exploration",
            "Seeded scenarios: an index of 1-3 outputs (lazily loaded directory objects or single files, shared contents) with a storage placement - one root prefix, one prefix per output over caches C1,C2 x remotes R1,R2, or a root prefix plus a nested prefix overriding one role (per-role fallback) - remotes being generic stores on the local fs or SimRemoteFS, with or without remote index; objects start in the cache the reference longest-prefix resolution designates. collect(push) -> push round 1 under upload_error / ack_lost / remote_down -> clean round 2 -> caches emptied -> fresh index -> collect -> fetch round 1 (optionally get_error / remote_down) -> clean round -> compare/apply from the cache. Oracle: each remote, then each cache, holds at least the objects of the entries that resolve to it and nothing unreachable, every object intact; pushed+failed (fetched+failed) equals the objects that had to move; checkout equals the data. The mapping is registered parents-first through add_*, nested-one-role-first, or by assigning StorageInfo records directly; objects reported as pushed must have arrived.",
            "No storage prefix lies strictly inside a directory-object entry. With nested prefixes the enclosing prefix's store may legitimately also receive the nested entries (collection walks each prefix's subtree), so set equality is relaxed to min <= actual <= max there and the count identity is only required for non-nested placements (and, under faults, when no object is shared by two (remote, cache) groups).",
            "deterministic simulation: seeded placement x fault-round scenarios vs reference longest-prefix resolution model", "DESIGN.md §5 C18"),
    "C03": ("exploration",
            "For each seeded entry set (names that are prefixes of each other, contain characters sorting below '/', non-ASCII, byte order != code-point order) the directory id is obtained along many routes that must all equal an independent canonical encoder: Tree.add in seeded permutations; build() of the materialised tree under permuted directory-listing order with checksum_jobs x large-file threshold routing files down the sequential or the pool path, where the simulated executor permutes completion order (the schedule part of the quantifier); hash-state cold, warm, and warm after touching mtimes / chmod +x at a later simulated time; from_list(as_list()) round trip; get_obj for every directory prefix and build() of that sub-directory vs the independently encoded sub-tree; near-miss entry sets must serialise to different bytes. The large-file pool also runs as pre-empted threads (chunk reads are pre-emption points, before and after each read); Tree.digest(with_meta=True) is one more route.",
            "Well-formed keys only (parts non-empty, no '/'). Pool tasks are reordered, not interleaved.",
            "deterministic simulation: seeded listing / insertion / pool-completion orders and state temperature vs canonical encoder", "DESIGN.md §5 C03"),
    "C14": ("exploration",
            "Claimed narrowly: the simulated part is the stream. A SimReader serves each seeded content (sizes around 0, 511-513 bytes, the 1 MiB read size; text, binary, CRLF straddling boundaries, text head with binary tail) in PRNG-chosen short reads; the hashing stream is consumed with PRNG-chosen read sizes directly (md5 / sha256 / blake3 / upper-case names), through fobj_md5 with several chunk sizes, and through build(upload=True) from a short-reading source filesystem onto SimRemoteFS consuming in random block sizes, where the streamed digest becomes the object's name; digests, passed-through bytes, total_read and the uploaded object are compared with hashlib on the whole content. The legacy md5-dos2unix claims (CRLF == LF for a text that fits one read, binary untouched, bytes unaltered) ride along as input sweeps over full reads. The legacy stream is also consumed over short reads (the bytes must pass unaltered); two further hashlib algorithm names per scenario and md5-sha1.",
            "The algorithm-name and dos2unix sub-claims are input sweeps, not what the simulation adds. total_read is only asserted for the plain stream (the legacy stream counts normalised bytes by design).",
            "deterministic simulation of the stream seam: seeded short-read and consumer-chunk sequences vs hashlib", "DESIGN.md §5 C14"),
}

NA_FIXED = {
    "C08": "pure function of two in-memory indexes and an option set: no schedule, clock, fault, crash or interleaving for a simulator to control (DESIGN.md §6)",
    "C19": "pure function of three listings and a policy: nothing for deterministic simulation to decide (DESIGN.md §6)",
    "C20": "stateless write-then-read of one value, no fault/crash/interleaving in the property (DESIGN.md §6)",
}

def main():
    built = {p for p in CHECKS if os.path.exists(os.path.join(VERIF, ENGINES[[e for e,(f,ps,_) in ENGINES.items() if p in ps][0]][0]))}
    props = [json.loads(l)["id"] for l in open(os.path.join(VERIF, "properties.jsonl"))]
    checks = []
    for p in props:
        if p not in built:
            continue
        level, text, note, tech, ref = CHECKS[p]
        eng = [e for e,(f,ps,_) in ENGINES.items() if p in ps][0]
        checks.append({
            "property_id": p,
            "quick_cmd": f"./check run {p} --tier quick",
            "thorough_cmd": f"./check run {p} --tier thorough",
            "evidence_file": f"/verif/evidence/{p}.json",
            "replay_cmd_template": "./check replay {path}",
            "engine": eng,
            "level_claimed": {"category": level, "text": text, "design_ref": ref},
            "level_note": note,
            "technique": tech,
        })
    na = []
    for p in props:
        if p in NA_FIXED:
            na.append({"property_id": p, "reason": NA_FIXED[p]})
        elif p not in built:
            na.append({"property_id": p, "reason": "check not built yet in this round (engine planned in DESIGN.md §5); not claimed until its check exists and passes its self-tests"})
    man = {
        "version": 1,
        "setup_cmd": "./check selftest setup",
        "hooks": {
            "guard": "DVC_DATA_VERIF",
            "enable": "no source hooks: all seams are attribute replacement from the harness (./check exports DVC_DATA_VERIF=1 for completeness)",
            "baseline_off_cmd": "cd /repo && /venv/bin/python -m pytest -ra -q -p no:cacheprovider --timeout=900 --continue-on-collection-errors",
            "source_commits": [],
            "add_only": True,
        },
        "engines": [
            {"name": e, "path": f, "serves_properties": [p for p in ps if p in built], "kind_free_text": k}
            for e, (f, ps, k) in ENGINES.items() if os.path.exists(os.path.join(VERIF, f))
        ],
        "checks": checks,
        "notes": "Deterministic simulation with fault injection (simkit). One integer (VERIF_SEED) decides every scenario, fault, listing/pool order, schedule and the PYTHONHASHSEED bucket of each run. Exit 0 held / 1 VIOLATION with minimised replay / 2 harness error. known_findings.json lists genuine recorded defects; fixes are 'fix:' commits in /repo.",
        "not_applicable": na,
    }
    allowed = {"exploration", "fault_enumeration", "model_checking", "proof", "translation_validation", "other"}
    for c in checks:
        assert c["level_claimed"]["category"] in allowed, (c["property_id"], c["level_claimed"]["category"][:40])
        assert all(k in c for k in ("property_id", "quick_cmd", "evidence_file", "level_claimed", "level_note"))
    try:
        import jsonschema  # present in the tooling venv; the plain checks above are the fallback

        jsonschema.validate(man, json.load(open("/root/.vp/MANIFEST.schema.json")))
    except ImportError:
        pass
    with open(os.path.join(VERIF, "MANIFEST.json"), "w") as f:
        json.dump(man, f, indent=1)
    print("checks:", [c["property_id"] for c in checks], "na:", [n["property_id"] for n in na])

if __name__ == "__main__":
    main()
