#!/usr/bin/env python3
"""usage: tools/merge_sens.py <report.json>...  — later files override earlier ones per seeded id; writes
reports/sensitivity.json and refreshes 'detected_by' in seeded/<id>/meta.json from the merged report."""
import json, os, sys
V = os.path.dirname(os.path.dirname(os.path.abspath(__file__)))
merged = {}
for f in sys.argv[1:]:
    try:
        merged.update(json.load(open(f)))
    except FileNotFoundError:
        print("missing", f)
ids = sorted(d for d in os.listdir(os.path.join(V, "seeded")) if os.path.isdir(os.path.join(V, "seeded", d)))
for mid in ids:
    r = merged.get(mid)
    if r is None:
        print("no result for", mid)
        continue
    mp = os.path.join(V, "seeded", mid, "meta.json")
    meta = json.load(open(mp))
    res = r.get("results", {})
    meta["detected_by"] = [f"{p} quick tier: {', '.join(res[p]['signatures'][:3])}" for p in r.get("detected_by", [])]
    json.dump(meta, open(mp, "w"), indent=1)
merged = {k: v for k, v in merged.items() if k in ids}
json.dump(merged, open(os.path.join(V, "reports", "sensitivity.json"), "w"), indent=1, sort_keys=True)
ok = sum(1 for r in merged.values() if r.get("breaks") in r.get("detected_by", []))
print(f"{ok}/{len(merged)} detected by the check of the property they break; missed:",
      sorted(k for k, r in merged.items() if r.get("breaks") not in r.get("detected_by", [])))
