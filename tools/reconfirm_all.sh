#!/bin/bash
# Re-confirms every sub-agent mutant under /verif/seeded against the CURRENT /repo HEAD:
# patch applies, demo exits 1 with the patch and 0 without (fixes made later may neutralise a mutant).
cd /verif/seeded || exit 2
for d in */; do
  id=${d%/}
  case "$id" in F*-revert) continue;; esac
  [ -f "$id/demo.py" ] || continue
  s=$(mktemp -d /dev/shm/reconf-XXXX)
  git -C /repo archive HEAD | tar -x -C "$s"
  if ! (cd "$s" && git apply "/verif/seeded/$id/patch.diff" 2>/dev/null); then echo "$id: PATCH-DOES-NOT-APPLY"; rm -rf "$s"; continue; fi
  PYTHONPATH="$s/src" timeout 300 /venv/bin/python "$id/demo.py" >/dev/null 2>&1; with=$?
  PYTHONPATH="/repo/src" timeout 300 /venv/bin/python "$id/demo.py" >/dev/null 2>&1; without=$?
  st=OK; [ "$with" = 1 ] && [ "$without" = 0 ] || st="STALE(with=$with without=$without)"
  echo "$id: $st"
  rm -rf "$s"
done
