#!/bin/bash
# usage: tools/scratch_mutant.sh <seeded-id> <prop> [<prop>...] — applies the seeded patch to a scratch copy of
# /repo HEAD under /dev/shm (never /repo itself), runs the quick tier of each property against it, removes the copy.
set -u
id="$1"; shift
d=$(mktemp -d /dev/shm/sens-repo-XXXXXX)
trap 'rm -rf "$d"' EXIT
git -C /repo archive HEAD | tar -x -C "$d"
(cd "$d" && git apply /verif/seeded/$id/patch.diff) || { echo "patch does not apply"; exit 2; }
cd /verif
for p in "$@"; do
  out=$(VERIF_REPO="$d" ./check run "$p" --tier quick --no-evidence --max-minimise 1 --min-budget 60 ${RUNS:+--runs $RUNS} 2>&1)
  rc=$?
  echo "== $id / $p rc=$rc"; echo "$out" | grep -E "VIOLATION|signature=|HARNESS" | head -5 | cut -c1-260; echo "$out" | tail -1 | cut -c1-200
done
