#!/bin/bash
# usage: tools/sens_sharded.sh [N]  — ./check selftest sensitivity over all seeded changes in N parallel
# shards (default 3); per-shard reports are merged into reports/sensitivity.json.
cd "$(dirname "$0")/.." || exit 2
N=${1:-3}
ids=($(ls seeded | sort))
pids=()
for s in $(seq 0 $((N-1))); do
  mine=()
  for i in "${!ids[@]}"; do [ $((i % N)) -eq $s ] && mine+=("${ids[$i]}"); done
  VERIF_SENS_OUT="reports/sensitivity.shard$s.json" ./check selftest sensitivity "${mine[@]}" > "reports/sensitivity.shard$s.log" 2>&1 &
  pids+=($!)
done
rc=0
for p in "${pids[@]}"; do wait $p || rc=1; done
python3 - "$N" <<'PY'
import json, sys
n = int(sys.argv[1]); merged = {}
for s in range(n):
    try:
        merged.update(json.load(open(f"reports/sensitivity.shard{s}.json")))
    except FileNotFoundError:
        print("shard", s, "left no report")
json.dump(merged, open("reports/sensitivity.json", "w"), indent=1, sort_keys=True)
ok = sum(1 for r in merged.values() if r.get("breaks") in r.get("detected_by", []))
print(f"sensitivity (sharded): {ok}/{len(merged)} detected by the check of the property they break")
PY
grep -h "^sensitivity .*MISSED\|PATCH DOES NOT APPLY" reports/sensitivity.shard*.log
rm -f reports/sensitivity.shard*.json
exit $rc
