#!/bin/bash
# usage: tools/soak.sh <first-seed> <last-seed> [props...]  — quick tier of each check on several
# VERIF_SEEDs without touching evidence; prints one line per (prop, seed) and every non-zero exit.
cd "$(dirname "$0")/.." || exit 2
a=$1; b=$2; shift 2
props=${*:-$(python3 -c "import json;print(' '.join(c['property_id'] for c in json.load(open('MANIFEST.json'))['checks']))")}
bad=0
for s in $(seq $a $b); do
  for p in $props; do
    out=$(VERIF_SEED=$s ./check run $p --tier quick --no-evidence 2>&1); rc=$?
    echo "seed=$s $p rc=$rc $(echo "$out" | tail -1 | cut -c1-120)"
    if [ $rc -ne 0 ]; then bad=$((bad+1)); echo "$out" | grep -E "VIOLATION|signature=|HARNESS" | head -5; fi
  done
done
echo "SOAK DONE bad=$bad"
