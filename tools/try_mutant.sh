#!/bin/bash
# usage: tools/try_mutant.sh <patch.diff> <prop> [<prop>...]   — applies the patch to /repo,
# runs the quick tier of each property without touching evidence, and reverts the patch.
set -u
patch="$1"; shift
cd /verif
if ! git -C /repo diff --quiet; then echo "REPO DIRTY, abort"; exit 2; fi
git -C /repo apply "$patch" || { echo "patch does not apply"; exit 2; }
trap 'git -C /repo checkout -- . ' EXIT
for p in "$@"; do
  out=$(./check run "$p" --tier quick --no-evidence --max-minimise 1 --min-budget 60 ${RUNS:+--runs $RUNS} 2>&1)
  rc=$?
  echo "== $p rc=$rc"; echo "$out" | grep -E "VIOLATION|signature=|HARNESS|KNOWN" | head -6; echo "$out" | tail -1
done
